package rules

import (
	"fmt"
	"go/ast"
	"go/token"
	"go/types"
	"sort"
	"strings"

	"golang.org/x/tools/go/cfg"
	"golang.org/x/tools/go/packages"

	"j5verif/checker/core"
)

// ImportPairing arms R-EXT/G3 over internal/j5s/j5convert.
//
// For every proto.SetExtension(_, E, _) the proto file declaring E must be
// imported by the file being built, on every non-error path, independent of
// what else the source file happens to contain. The import is provided by
// `<visitor>.file.ensureImport(<const>)` executed
//
//	(a) on every path before the site in the same function, or
//	(b) on every non-error path after the site in the same function, or
//	(c) by a callee that must-ensures it (summary over non-error paths), or
//	(d) by the calling context: the intersection, over all call sites of the
//	    function (and creation points of closures), of what is must-ensured
//	    before that call site on a file-equivalent visitor.
//
// "File-equivalent" visitors are the receiver/parameter of type
// *conversionVisitor and locals derived from it through methods that copy
// the `file` field unchanged (verified structurally: _clone/inMessage).
func ImportPairing(r *core.Run) {
	const rel = "internal/j5s/j5convert"
	r.Rule("R-EXT/G3", "every SetExtension(_, E, _) in j5convert is paired with ensureImport(<file declaring E>) on the same output file on every non-error path: before or after in the same function, through a callee summary, or through the intersection of all calling contexts; otherwise the compiled file fails to link unless an unrelated declaration added the import")
	pk := r.P.Pkg(rel)
	if pk == nil {
		r.Fatal("anchor: package %s not found", rel)
		return
	}
	a := &impAnalysis{r: r, pk: pk, info: pk.TypesInfo, funcs: map[ast.Node]*impFunc{}, byObj: map[types.Object]*impFunc{}, extCache: map[types.Object]*ExtInfo{}}
	a.visitorT = r.P.LookupType(core.Module+"/"+rel, "conversionVisitor")
	if a.visitorT == nil {
		r.Fatal("anchor: j5convert.conversionVisitor not found")
		return
	}
	a.filePreserving = a.findFilePreserving()
	a.collect()
	a.solve()
	a.report()
}

type impEventKind int

const (
	evEnsure impEventKind = iota
	evSet
	evCall  // call of a module function with a visitor argument
	evFlit  // closure creation
	evError // addError / addErrorf
)

type impEvent struct {
	kind   impEventKind
	pos    token.Pos
	imp    string   // evEnsure: constant import path ("" if non-constant)
	ext    *ExtInfo // evSet
	extSrc string   // evSet: expression text
	callee *impFunc // evCall / evFlit
	equiv  bool     // evCall/evEnsure: on a file-equivalent visitor
	node   ast.Node
}

type impFunc struct {
	name   string
	node   ast.Node // *ast.FuncDecl or *ast.FuncLit
	body   *ast.BlockStmt
	parent *impFunc
	g      *cfg.CFG
	events map[*cfg.Block][]*impEvent
	equiv  map[types.Object]bool
	files  map[types.Object]bool // parameters of type *fileContext: "the" output file of this function
	hasErr bool                  // has an error result

	summary  map[string]bool // must-ensured on every non-error path entry→exit
	context  map[string]bool // intersection over call sites; nil = TOP (no call site seen yet)
	nCallers int
	before   map[*impEvent]map[string]bool
	after    map[*impEvent]map[string]bool
}

type impAnalysis struct {
	r              *core.Run
	pk             *packages.Package
	info           *types.Info
	visitorT       *types.Named
	filePreserving map[string]bool
	funcs          map[ast.Node]*impFunc
	byObj          map[types.Object]*impFunc
	order          []*impFunc
	extCache       map[types.Object]*ExtInfo
}

func (a *impAnalysis) isVisitor(t types.Type) bool {
	n := core.NamedOf(t)
	return n != nil && n.Obj() == a.visitorT.Obj()
}

// findFilePreserving: methods of conversionVisitor returning a visitor whose
// `file` field is the receiver's: no assignment to .file in the body and the
// result derives from _clone() or a literal with file: recv.file.
func (a *impAnalysis) findFilePreserving() map[string]bool {
	out := map[string]bool{}
	cand := map[string]*ast.FuncDecl{}
	core.AllFuncDecls(a.pk, func(fd *ast.FuncDecl) {
		if core.RecvName(fd) != "conversionVisitor" || fd.Type.Results == nil || len(fd.Type.Results.List) != 1 {
			return
		}
		if !a.isVisitor(a.info.TypeOf(fd.Type.Results.List[0].Type)) {
			return
		}
		cand[fd.Name.Name] = fd
	})
	changed := true
	for changed {
		changed = false
		for name, fd := range cand {
			if out[name] {
				continue
			}
			recv := ""
			if len(fd.Recv.List[0].Names) == 1 {
				recv = fd.Recv.List[0].Names[0].Name
			}
			writesFile, derives := false, false
			ast.Inspect(fd.Body, func(n ast.Node) bool {
				switch x := n.(type) {
				case *ast.AssignStmt:
					for _, l := range x.Lhs {
						if s, ok := l.(*ast.SelectorExpr); ok && s.Sel.Name == "file" && a.isVisitor(a.info.TypeOf(s.X)) {
							writesFile = true
						}
					}
					// clone := *recv — a copy of the whole struct carries the file along
					for _, rhs := range x.Rhs {
						if st, ok := core.Unparen(rhs).(*ast.StarExpr); ok {
							if id, ok := core.Unparen(st.X).(*ast.Ident); ok && id.Name == recv && recv != "" {
								derives = true
							}
						}
					}
				case *ast.CompositeLit:
					if a.isVisitor(a.info.TypeOf(x)) {
						for _, e := range x.Elts {
							if kv, ok := e.(*ast.KeyValueExpr); ok {
								if k, ok := kv.Key.(*ast.Ident); ok && k.Name == "file" {
									if s, ok := kv.Value.(*ast.SelectorExpr); ok && s.Sel.Name == "file" {
										if id, ok := s.X.(*ast.Ident); ok && id.Name == recv {
											derives = true
										}
									}
								}
							}
						}
					}
				case *ast.CallExpr:
					if s, ok := x.Fun.(*ast.SelectorExpr); ok && out[s.Sel.Name] {
						if id, ok := s.X.(*ast.Ident); ok && id.Name == recv {
							derives = true
						}
					}
				}
				return true
			})
			if derives && !writesFile {
				out[name] = true
				changed = true
			}
		}
	}
	return out
}

func (a *impAnalysis) collect() {
	core.AllFuncDecls(a.pk, func(fd *ast.FuncDecl) {
		f := &impFunc{name: core.FuncName(fd), node: fd, body: fd.Body, equiv: map[types.Object]bool{}, files: map[types.Object]bool{}}
		if fd.Recv != nil && len(fd.Recv.List) == 1 && a.isVisitor(a.info.TypeOf(fd.Recv.List[0].Type)) {
			for _, n := range fd.Recv.List[0].Names {
				f.equiv[a.info.Defs[n]] = true
			}
		}
		nv := 0
		for _, p := range fd.Type.Params.List {
			if a.isFileCtx(a.info.TypeOf(p.Type)) && len(f.files) == 0 {
				for _, n := range p.Names {
					if len(f.files) == 0 {
						f.files[a.info.Defs[n]] = true
					}
				}
			}
			if a.isVisitor(a.info.TypeOf(p.Type)) {
				for _, n := range p.Names {
					nv++
					if nv == 1 && len(f.equiv) == 0 {
						f.equiv[a.info.Defs[n]] = true
					}
				}
			}
		}
		f.hasErr = hasErrorResult(a.info, fd.Type)
		a.funcs[fd] = f
		if o := a.info.Defs[fd.Name]; o != nil {
			a.byObj[o] = f
		}
		a.order = append(a.order, f)
	})
	// function literals, nested
	for i := 0; i < len(a.order); i++ {
		f := a.order[i]
		n := 0
		inspectNoFuncLit(f.body, func(node ast.Node) {
			if fl, ok := node.(*ast.FuncLit); ok {
				n++
				c := &impFunc{name: fmt.Sprintf("%s$%d", f.name, n), node: fl, body: fl.Body, parent: f, equiv: f.equiv, files: f.files}
				c.hasErr = hasErrorResult(a.info, fl.Type)
				a.funcs[fl] = c
				a.order = append(a.order, c)
			}
		})
	}
	// local equivalence: v := <equiv>.<filePreserving>(...)
	for _, f := range a.order {
		if f.parent == nil {
			a.localEquiv(f)
		}
	}
	for _, f := range a.order {
		a.buildEvents(f)
	}
}

func hasErrorResult(info *types.Info, ft *ast.FuncType) bool {
	if ft.Results == nil {
		return false
	}
	for _, r := range ft.Results.List {
		if t := info.TypeOf(r.Type); t != nil && t.String() == "error" {
			return true
		}
	}
	return false
}

// inspectNoFuncLit visits nodes under root, reporting FuncLits but not
// descending into them.
func inspectNoFuncLit(root ast.Node, f func(ast.Node)) {
	ast.Inspect(root, func(n ast.Node) bool {
		if n == nil {
			return true
		}
		if n != root {
			if _, ok := n.(*ast.FuncLit); ok {
				f(n)
				return false
			}
		}
		f(n)
		return true
	})
}

func (a *impAnalysis) isFileCtx(t types.Type) bool {
	n := core.NamedOf(t)
	return n != nil && n.Obj().Name() == "fileContext" && n.Obj().Pkg() == a.visitorT.Obj().Pkg()
}

// isFileExpr: the expression denotes this function's output file:
// <equivalent visitor>.file or the function's *fileContext parameter.
func (a *impAnalysis) isFileExpr(f *impFunc, e ast.Expr) bool {
	switch x := core.Unparen(e).(type) {
	case *ast.Ident:
		return f.files[a.info.Uses[x]]
	case *ast.SelectorExpr:
		return x.Sel.Name == "file" && a.isVisitor(a.info.TypeOf(x.X)) && a.isEquivExpr(f, x.X)
	}
	return false
}

func (a *impAnalysis) isEquivExpr(f *impFunc, e ast.Expr) bool {
	switch x := core.Unparen(e).(type) {
	case *ast.Ident:
		return f.equiv[a.info.Uses[x]] || f.equiv[a.info.Defs[x]]
	case *ast.CallExpr:
		if s, ok := x.Fun.(*ast.SelectorExpr); ok && a.filePreserving[s.Sel.Name] && a.isVisitor(a.info.TypeOf(s.X)) {
			return a.isEquivExpr(f, s.X)
		}
	}
	return false
}

// localEquiv extends f.equiv (shared with its closures) with locals assigned
// exactly once from a file-preserving derivation of an equivalent visitor.
func (a *impAnalysis) localEquiv(f *impFunc) {
	assigns := map[types.Object]int{}
	var cands []struct {
		o   types.Object
		rhs ast.Expr
	}
	ast.Inspect(f.body, func(n ast.Node) bool {
		as, ok := n.(*ast.AssignStmt)
		if !ok {
			return true
		}
		for i, l := range as.Lhs {
			id, ok := l.(*ast.Ident)
			if !ok {
				continue
			}
			o := a.info.Defs[id]
			if o == nil {
				o = a.info.Uses[id]
			}
			if o == nil || !a.isVisitor(o.Type()) {
				continue
			}
			assigns[o]++
			if len(as.Lhs) == len(as.Rhs) {
				cands = append(cands, struct {
					o   types.Object
					rhs ast.Expr
				}{o, as.Rhs[i]})
			}
		}
		return true
	})
	for changed := true; changed; {
		changed = false
		for _, c := range cands {
			if assigns[c.o] == 1 && !f.equiv[c.o] && a.isEquivExpr(f, c.rhs) {
				f.equiv[c.o] = true
				changed = true
			}
		}
	}
}

func (a *impAnalysis) buildEvents(f *impFunc) {
	f.g = cfg.New(f.body, func(c *ast.CallExpr) bool {
		return core.CalleeName(a.info, c) != "builtin.panic"
	})
	f.events = map[*cfg.Block][]*impEvent{}
	for _, b := range f.g.Blocks {
		for _, n := range b.Nodes {
			inspectNoFuncLit(n, func(node ast.Node) {
				switch x := node.(type) {
				case *ast.FuncLit:
					if c := a.funcs[x]; c != nil {
						f.events[b] = append(f.events[b], &impEvent{kind: evFlit, pos: x.Pos(), callee: c, node: x})
					}
				case *ast.CallExpr:
					a.callEvent(f, b, x)
				}
			})
		}
	}
}

func (a *impAnalysis) callEvent(f *impFunc, b *cfg.Block, c *ast.CallExpr) {
	cn := core.CalleeName(a.info, c)
	const pfx = core.Module + "/internal/j5s/j5convert."
	switch {
	case cn == fnSetExtension && len(c.Args) == 3:
		ev := &impEvent{kind: evSet, pos: c.Pos(), extSrc: core.ExprStr(c.Args[1]), node: c}
		if o := core.UsedObj(a.info, c.Args[1]); o != nil {
			ei, ok := a.extCache[o]
			if !ok {
				ei, _ = ResolveExt(a.r.P, o)
				a.extCache[o] = ei
			}
			ev.ext = ei
		}
		f.events[b] = append(f.events[b], ev)
	case cn == "(*"+pfx+"fileContext).ensureImport":
		ev := &impEvent{kind: evEnsure, pos: c.Pos(), node: c}
		ev.imp, _ = core.ConstString(a.info, c.Args[0])
		if s, ok := c.Fun.(*ast.SelectorExpr); ok {
			ev.equiv = a.isFileExpr(f, s.X)
		}
		f.events[b] = append(f.events[b], ev)
	case cn == "(*"+pfx+"conversionVisitor).addError" || cn == "(*"+pfx+"conversionVisitor).addErrorf":
		f.events[b] = append(f.events[b], &impEvent{kind: evError, pos: c.Pos(), node: c})
	default:
		fn := core.CalleeFunc(a.info, c)
		if fn == nil {
			return
		}
		callee := a.byObj[fn]
		if callee == nil {
			return
		}
		ev := &impEvent{kind: evCall, pos: c.Pos(), callee: callee, node: c}
		// which output file does the callee run on? An explicit *fileContext
		// argument wins, then the visitor (receiver or argument); a helper that
		// receives neither cannot reach any file and builds for its caller's.
		decided := false
		for _, arg := range c.Args {
			if a.isFileCtx(a.info.TypeOf(arg)) {
				ev.equiv, decided = a.isFileExpr(f, arg), true
				break
			}
		}
		if s, ok := c.Fun.(*ast.SelectorExpr); ok && !decided && a.isVisitor(a.info.TypeOf(s.X)) {
			ev.equiv, decided = a.isEquivExpr(f, s.X), true
		}
		if !decided {
			for _, arg := range c.Args {
				if a.isVisitor(a.info.TypeOf(arg)) {
					ev.equiv, decided = a.isEquivExpr(f, arg), true
					break
				}
			}
		}
		if !decided {
			ev.equiv = true
		}
		f.events[b] = append(f.events[b], ev)
	}
}

type strset = map[string]bool

func copySet(s strset) strset {
	o := strset{}
	for k := range s {
		o[k] = true
	}
	return o
}
func intersect(a, b strset) strset {
	o := strset{}
	for k := range a {
		if b[k] {
			o[k] = true
		}
	}
	return o
}
func setEq(a, b strset) bool {
	if len(a) != len(b) {
		return false
	}
	for k := range a {
		if !b[k] {
			return false
		}
	}
	return true
}

// gen applies one event to a must-set.
func (a *impAnalysis) gen(s strset, ev *impEvent) {
	switch ev.kind {
	case evEnsure:
		if ev.equiv && ev.imp != "" {
			s[ev.imp] = true
		}
	case evCall:
		if ev.equiv && ev.callee.summary != nil {
			for k := range ev.callee.summary {
				s[k] = true
			}
		}
	}
}

// isErrorExit: a block that ends the function on an error path: it returns a
// non-nil error, or it recorded an error through addError/addErrorf.
func (a *impAnalysis) isErrorExit(f *impFunc, b *cfg.Block) bool {
	for _, ev := range f.events[b] {
		if ev.kind == evError {
			return true
		}
	}
	if len(b.Nodes) == 0 {
		return false
	}
	ret, ok := b.Nodes[len(b.Nodes)-1].(*ast.ReturnStmt)
	if !ok || !f.hasErr || len(ret.Results) == 0 {
		return false
	}
	last := ret.Results[len(ret.Results)-1]
	return !core.IsNilIdent(a.info, last)
}

// forward must-analysis; returns IN sets per block.
func (a *impAnalysis) forward(f *impFunc) map[*cfg.Block]strset {
	in := map[*cfg.Block]strset{}
	out := map[*cfg.Block]strset{}
	preds := map[*cfg.Block][]*cfg.Block{}
	for _, b := range f.g.Blocks {
		for _, s := range b.Succs {
			preds[s] = append(preds[s], b)
		}
	}
	for changed := true; changed; {
		changed = false
		for i, b := range f.g.Blocks {
			if !b.Live {
				continue
			}
			var cur strset
			if i == 0 {
				cur = strset{}
			} else {
				first := true
				for _, p := range preds[b] {
					if !p.Live {
						continue
					}
					po, ok := out[p]
					if !ok {
						continue // TOP
					}
					if first {
						cur = copySet(po)
						first = false
					} else {
						cur = intersect(cur, po)
					}
				}
				if first {
					continue // all preds TOP so far
				}
			}
			o := copySet(cur)
			for _, ev := range f.events[b] {
				a.gen(o, ev)
			}
			if old, ok := out[b]; !ok || !setEq(old, o) || !setEq(in[b], cur) {
				in[b], out[b] = cur, o
				changed = true
			}
		}
	}
	return in
}

// backward must-analysis over non-error exits; returns OUT sets per block
// (what is must-ensured after the end of the block). ok=false for a block
// means TOP (only error exits reachable).
func (a *impAnalysis) backward(f *impFunc) map[*cfg.Block]strset {
	outS := map[*cfg.Block]strset{} // after block end
	inS := map[*cfg.Block]strset{}  // before block start
	top := map[*cfg.Block]bool{}
	for _, b := range f.g.Blocks {
		top[b] = true
	}
	for changed := true; changed; {
		changed = false
		for i := len(f.g.Blocks) - 1; i >= 0; i-- {
			b := f.g.Blocks[i]
			if !b.Live {
				continue
			}
			var cur strset
			isTop := false
			if len(b.Succs) == 0 {
				if a.isErrorExit(f, b) {
					isTop = true
				} else {
					cur = strset{}
				}
			} else {
				first := true
				for _, s := range b.Succs {
					if top[s] {
						continue
					}
					if first {
						cur = copySet(inS[s])
						first = false
					} else {
						cur = intersect(cur, inS[s])
					}
				}
				if first {
					isTop = true
				}
			}
			if isTop {
				continue
			}
			// an error recorded in this block makes the whole path an error path
			errBlock := false
			for _, ev := range f.events[b] {
				if ev.kind == evError {
					errBlock = true
				}
			}
			if errBlock && len(b.Succs) == 0 {
				continue
			}
			in := copySet(cur)
			for _, ev := range f.events[b] {
				a.gen(in, ev)
			}
			if top[b] || !setEq(outS[b], cur) || !setEq(inS[b], in) {
				top[b] = false
				outS[b], inS[b] = cur, in
				changed = true
			}
		}
	}
	for b := range top {
		if top[b] {
			delete(outS, b)
		}
	}
	return outS
}

func (a *impAnalysis) solve() {
	// 1. summaries to fixpoint (monotone increasing from empty).
	for _, f := range a.order {
		f.summary = strset{}
	}
	for changed := true; changed; {
		changed = false
		for _, f := range a.order {
			out := a.backward(f)
			// summary = must-ensured from entry over non-error exits
			entry := f.g.Blocks[0]
			var s strset
			if o, ok := out[entry]; ok {
				s = copySet(o)
				for _, ev := range f.events[entry] {
					a.gen(s, ev)
				}
			} else {
				s = strset{} // only error exits: nothing to promise (conservative)
			}
			if !setEq(s, f.summary) {
				f.summary = s
				changed = true
			}
		}
	}
	// 2. per-event before/after sets
	for _, f := range a.order {
		f.before = map[*impEvent]strset{}
		f.after = map[*impEvent]strset{}
		in := a.forward(f)
		out := a.backward(f)
		for _, b := range f.g.Blocks {
			if !b.Live {
				continue
			}
			evs := f.events[b]
			cur := copySet(in[b])
			for _, ev := range evs {
				f.before[ev] = copySet(cur)
				a.gen(cur, ev)
			}
			o, ok := out[b]
			if !ok {
				for _, ev := range evs {
					f.after[ev] = nil // TOP: only error exits follow
				}
				continue
			}
			cur = copySet(o)
			for i := len(evs) - 1; i >= 0; i-- {
				f.after[evs[i]] = copySet(cur)
				a.gen(cur, evs[i])
			}
		}
	}
	// 3. calling contexts: greatest fixpoint from TOP.
	for _, f := range a.order {
		f.context = nil
		f.nCallers = 0
	}
	for iter := 0; iter < 50; iter++ {
		next := map[*impFunc]strset{}
		seen := map[*impFunc]bool{}
		for _, f := range a.order {
			for _, b := range f.g.Blocks {
				if !b.Live {
					continue
				}
				for _, ev := range f.events[b] {
					if ev.kind != evCall && ev.kind != evFlit {
						continue
					}
					var ctx strset
					if ev.kind == evFlit || ev.equiv {
						ctx = copySet(f.before[ev])
						if f.context != nil {
							for k := range f.context {
								ctx[k] = true
							}
						} else if f.nCallers > 0 || f.parent != nil {
							// caller context still TOP in this iteration: be optimistic,
							// the greatest fixpoint iteration will shrink it.
							ctx = nil
						}
					} else {
						ctx = strset{} // different output file: nothing carries over
					}
					c := ev.callee
					if !seen[c] {
						seen[c] = true
						next[c] = ctx
					} else if ctx != nil {
						if next[c] == nil {
							next[c] = ctx
						} else {
							next[c] = intersect(next[c], ctx)
						}
					}
				}
			}
		}
		changed := false
		for _, f := range a.order {
			n := 0
			if seen[f] {
				n = 1
			}
			var nc strset
			if seen[f] {
				nc = next[f]
			} else {
				nc = strset{} // no caller in the package: entry point, empty context
			}
			if f.nCallers != n || (f.context == nil) != (nc == nil) || (nc != nil && !setEq(f.context, nc)) {
				changed = true
			}
			f.nCallers, f.context = n, nc
		}
		if !changed {
			break
		}
	}
	for _, f := range a.order {
		if f.context == nil {
			f.context = strset{}
		}
	}
}

func (a *impAnalysis) report() {
	n := 0
	for _, f := range a.order {
		var evs []*impEvent
		for _, b := range f.g.Blocks {
			if !b.Live {
				continue
			}
			for _, ev := range f.events[b] {
				if ev.kind == evSet {
					evs = append(evs, ev)
				}
			}
		}
		sort.Slice(evs, func(i, j int) bool { return evs[i].pos < evs[j].pos })
		for _, ev := range evs {
			n++
			key := fmt.Sprintf("j5convert.%s | SetExtension(%s)", f.name, ev.extSrc)
			o := a.r.Add("R-EXT/G3", key, ev.pos, "import for "+ev.extSrc)
			if ev.ext == nil {
				o.Fail("cannot resolve the extension variable to its ExtensionInfo literal")
				continue
			}
			need := ev.ext.Filename
			switch {
			case f.before[ev][need]:
				o.Auto("ensureImport(%q) on every path before the site", need)
			case f.after[ev] == nil:
				o.Auto("only error exits follow the site")
			case f.after[ev][need]:
				o.Auto("ensureImport(%q) on every non-error path after the site", need)
			case f.context[need]:
				o.Auto("every calling context has ensured %q on the same output file", need)
			default:
				o.Fail("no ensureImport(%q) on some non-error path through this site (ensured before: %s; after: %s; by all callers: %s): a file containing only this construct does not link", need, setStr(f.before[ev]), setStr(f.after[ev]), setStr(f.context))
			}
		}
		// non-constant ensureImport arguments are recorded (they cannot discharge anything)
	}
	a.r.Analysed["j5convert_functions_and_closures"] = len(a.order)
	a.r.Analysed["setextension_sites"] = n
	var fp []string
	for k := range a.filePreserving {
		fp = append(fp, k)
	}
	sort.Strings(fp)
	a.r.Note("file-preserving visitor derivations (verified structurally): %s", strings.Join(fp, ", "))
}

func setStr(s strset) string {
	var k []string
	for x := range s {
		k = append(k, x)
	}
	sort.Strings(k)
	return "{" + strings.Join(k, ", ") + "}"
}
