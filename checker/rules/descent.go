package rules

import (
	"go/ast"
	"go/token"
	"go/types"
	"strings"

	"j5verif/checker/core"
)

// Carrier families for R-TERM/T3: data structures that are finite trees by
// construction, so that a recursion which hands a strict sub-term of its own
// parameter to the next activation is bounded by the depth of the value.
//
// The list is an allow-list: a descent step whose source type is in none of
// the families is not accepted (RefSchema.To, ObjectField.Schema(), Parent()
// and the other links that can close a cycle are simply not in it).
var carrierFamilies = []struct{ Name, Reason string }{
	{"proto", "generated protobuf message types (*.pb.go): values are decoded from bytes/JSON or built field by field; neither the protobuf runtime nor this module creates cyclic message graphs"},
	{"error", "error values: every wrapper is constructed around an already existing error and never updated afterwards"},
	{"bcl-ast", "BCL syntax tree (internal/bcl/internal/parser): nodes are freshly allocated by the recursive-descent parser, children before parents"},
	{"schema-items", "j5schema ArrayField/MapField item nesting: the item schema is built before the container that holds it (buildSchema), named references go through RefSchema which is not in this family"},
	{"source-nodes", "sourcewalk node structs (FieldNode, PropertyNode, …): wrappers built by buildFieldNode around sub-terms of the source schema message, children before parents"},
	{"descriptors", "protoreflect descriptors followed along declaration nesting only (Messages, Enums, Fields, Oneofs, Values, Services, Methods, Extensions, Get, ByName): the nesting of declarations in a .proto file is a finite tree; the accessors that follow references (Message, Enum, Parent, ContainingMessage, Input, Output …) are not descent steps"},
	{"slice", "slices and strings: an index, a range element or a re-slice x[k:] with k ≥ 1 is strictly smaller than x"},
}

type descent struct {
	pk   *core.Prog
	info *types.Info
	decl *ast.FuncDecl // outermost declaration enclosing the site (closures see its variables)
}

// family classifies a type; "" when it is no carrier.
func (d *descent) family(t types.Type) string {
	if t == nil {
		return ""
	}
	if p, ok := t.(*types.Pointer); ok {
		t = p.Elem()
	}
	errT := types.Universe.Lookup("error").Type().Underlying().(*types.Interface)
	if n, ok := t.(*types.Named); ok && n.Obj().Pkg() != nil {
		path := n.Obj().Pkg().Path()
		file := d.pk.Fset.Position(n.Obj().Pos()).Filename
		switch {
		case path == "google.golang.org/protobuf/reflect/protoreflect" && (strings.HasSuffix(n.Obj().Name(), "Descriptor") || strings.HasSuffix(n.Obj().Name(), "Descriptors")):
			return "descriptors"
		case strings.HasSuffix(file, ".pb.go"):
			return "proto"
		case strings.HasSuffix(path, "/internal/bcl/internal/parser"):
			if _, isStruct := n.Underlying().(*types.Struct); isStruct {
				return "bcl-ast"
			}
			if _, isIface := n.Underlying().(*types.Interface); isIface {
				return "bcl-ast"
			}
		case strings.HasSuffix(path, "/internal/j5s/sourcewalk"):
			if _, isStruct := n.Underlying().(*types.Struct); isStruct && strings.HasSuffix(n.Obj().Name(), "Node") {
				return "source-nodes"
			}
		case strings.HasSuffix(path, "/lib/j5schema"):
			switch n.Obj().Name() {
			case "ArrayField", "MapField":
				return "schema-items"
			}
		}
		if types.Implements(n, errT) || types.Implements(types.NewPointer(n), errT) {
			return "error"
		}
	}
	if types.Identical(t, types.Universe.Lookup("error").Type()) {
		return "error"
	}
	switch u := t.Underlying().(type) {
	case *types.Slice:
		return "slice"
	case *types.Basic:
		if u.Info()&types.IsString != 0 {
			return "slice"
		}
	}
	return ""
}

// isParam: the object is a parameter or receiver of the enclosing declaration
// or of one of the function literals nested in it.
func (d *descent) isParam(obj types.Object) bool {
	found := false
	check := func(ft *ast.FuncType, recv *ast.FieldList) {
		for _, fl := range []*ast.FieldList{recv, ft.Params} {
			if fl == nil {
				continue
			}
			for _, f := range fl.List {
				for _, n := range f.Names {
					if d.info.Defs[n] == obj {
						found = true
					}
				}
			}
		}
	}
	check(d.decl.Type, d.decl.Recv)
	ast.Inspect(d.decl.Body, func(n ast.Node) bool {
		if fl, ok := n.(*ast.FuncLit); ok {
			check(fl.Type, nil)
		}
		return !found
	})
	return found
}

// definition finds the single defining expression of a local variable and the
// number of descent steps the definition itself makes (range: 1). ok=false
// when the variable is assigned more than once or defined in a form that is
// not understood.
func (d *descent) definition(obj types.Object) (e ast.Expr, steps int, ok bool) {
	count := 0
	ast.Inspect(d.decl.Body, func(n ast.Node) bool {
		switch x := n.(type) {
		case *ast.AssignStmt:
			for i, l := range x.Lhs {
				id, isID := l.(*ast.Ident)
				if !isID {
					continue
				}
				if d.info.Defs[id] != obj && !(x.Tok == token.ASSIGN && d.info.Uses[id] == obj) {
					continue
				}
				count++
				switch {
				case len(x.Rhs) == len(x.Lhs):
					e = x.Rhs[i]
				case len(x.Rhs) == 1 && i == 0:
					// v, ok := x.(T) / m[k]; a multi-value call is not a descent
					switch core.Unparen(x.Rhs[0]).(type) {
					case *ast.TypeAssertExpr, *ast.IndexExpr:
						e = x.Rhs[0]
					default:
						if c, isCall := core.Unparen(x.Rhs[0]).(*ast.CallExpr); isCall {
							e = c // getter with (T, bool) result, judged by the step rules
						}
					}
				}
			}
		case *ast.RangeStmt:
			for _, l := range []ast.Expr{x.Key, x.Value} {
				if id, isID := l.(*ast.Ident); isID && d.info.Defs[id] == obj {
					count++
					if l == x.Value {
						e, steps = x.X, 1
					}
				}
			}
		case *ast.TypeSwitchStmt:
			if as, isAs := x.Assign.(*ast.AssignStmt); isAs && len(as.Rhs) == 1 {
				for _, cl := range x.Body.List {
					if d.info.Implicits[cl] == obj {
						count = 1
						if ta, isTA := core.Unparen(as.Rhs[0]).(*ast.TypeAssertExpr); isTA {
							e = ta.X
						}
					}
				}
			}
		case *ast.ValueSpec:
			for i, id := range x.Names {
				if d.info.Defs[id] == obj && i < len(x.Values) {
					count++
					e = x.Values[i]
				}
			}
		case *ast.IncDecStmt:
			if id, isID := x.X.(*ast.Ident); isID && d.info.Uses[id] == obj {
				count += 2
			}
		case *ast.UnaryExpr:
			if x.Op == token.AND {
				if id, isID := x.X.(*ast.Ident); isID && d.info.Uses[id] == obj {
					count += 2 // address taken: may be written elsewhere
				}
			}
		}
		return true
	})
	return e, steps, count == 1 && e != nil
}

// derive: the expression is reached from a parameter (of the enclosing
// declaration or closure chain) by `steps` descent steps, every one of which
// starts at a value of a carrier family.
func (d *descent) derive(e ast.Expr, depth int) (root types.Object, steps int, ok bool) {
	if depth > 12 {
		return nil, 0, false
	}
	e = core.Unparen(e)
	step := func(src ast.Expr) (types.Object, int, bool) {
		if d.family(d.info.TypeOf(src)) == "" {
			return nil, 0, false
		}
		r, s, ok := d.derive(src, depth+1)
		return r, s + 1, ok
	}
	switch x := e.(type) {
	case *ast.Ident:
		obj := d.info.Uses[x]
		if obj == nil {
			return nil, 0, false
		}
		if _, isVar := obj.(*types.Var); !isVar {
			return nil, 0, false
		}
		if d.isParam(obj) {
			return obj, 0, true
		}
		def, s0, ok := d.definition(obj)
		if !ok {
			return nil, 0, false
		}
		if s0 > 0 {
			r, s, ok := step(def)
			return r, s, ok
		}
		return d.derive(def, depth+1)
	case *ast.StarExpr:
		return d.derive(x.X, depth+1)
	case *ast.UnaryExpr:
		if x.Op == token.AND {
			return d.derive(x.X, depth+1)
		}
	case *ast.TypeAssertExpr:
		return d.derive(x.X, depth+1)
	case *ast.SelectorExpr:
		if sel := d.info.Selections[x]; sel != nil && sel.Kind() == types.FieldVal {
			return step(x.X)
		}
	case *ast.IndexExpr:
		if _, isMap := d.info.TypeOf(x.X).Underlying().(*types.Map); !isMap {
			return step(x.X)
		}
	case *ast.SliceExpr:
		if x.Low != nil {
			if k, isC := core.ConstInt(d.info, x.Low); isC && k >= 1 {
				return step(x.X)
			}
		}
	case *ast.CallExpr:
		// generated getter: x.GetFoo() on a protobuf message
		if sel, isSel := x.Fun.(*ast.SelectorExpr); isSel && len(x.Args) == 0 {
			if fn := core.CalleeFunc(d.info, x); fn != nil && strings.HasPrefix(fn.Name(), "Get") && d.family(d.info.TypeOf(sel.X)) == "proto" {
				return step(sel.X)
			}
		}
		// declaration nesting of protoreflect descriptors
		if sel, isSel := x.Fun.(*ast.SelectorExpr); isSel && d.family(d.info.TypeOf(sel.X)) == "descriptors" {
			switch sel.Sel.Name {
			case "Messages", "Enums", "Fields", "Oneofs", "Values", "Services", "Methods", "Extensions":
				if len(x.Args) == 0 {
					return step(sel.X)
				}
			case "Get", "ByName", "ByNumber", "ByJSONName", "ByTextName":
				if len(x.Args) == 1 {
					return step(sel.X)
				}
			}
		}
	}
	return nil, 0, false
}

// descendingCall reports whether the call hands a strict sub-term of one of
// the caller's parameters to the callee (as receiver or argument), and names
// it.
func descendingCall(p *core.Prog, f *ScopeFunc, call *ast.CallExpr) (string, bool) {
	decl := core.EnclosingFunc(f.Pkg, call.Pos())
	if decl == nil || decl.Body == nil {
		return "", false
	}
	d := &descent{pk: p, info: f.Pkg.TypesInfo, decl: decl}
	var cands []ast.Expr
	if sel, ok := call.Fun.(*ast.SelectorExpr); ok {
		if s := d.info.Selections[sel]; s != nil && s.Kind() == types.MethodVal {
			cands = append(cands, sel.X)
		}
	}
	cands = append(cands, call.Args...)
	for _, a := range cands {
		// a string or number taken out of the structure is a name or key that
		// may refer anywhere (an import path, a schema name): not a sub-term,
		// unless the value itself is the re-sliced remainder x[k:]
		if _, basic := d.info.TypeOf(a).Underlying().(*types.Basic); basic {
			if _, reslice := core.Unparen(a).(*ast.SliceExpr); !reslice {
				continue
			}
		}
		if root, steps, ok := d.derive(a, 0); ok && steps >= 1 {
			return core.ExprStr(a) + " is a strict sub-term of parameter " + root.Name() + " (" + d.family(root.Type()) + " carrier)", true
		}
	}
	return "", false
}
