package rules

import (
	"fmt"
	"go/ast"
	"go/token"
	"go/types"
	"sort"

	"golang.org/x/tools/go/cfg"
	"golang.org/x/tools/go/packages"

	"j5verif/checker/core"
)

// NonNilFields (R-PANIC/P4c): a pointer-typed field f of a package struct S
// that is dereferenced directly somewhere in the package (`x.f.g` with g a
// field, x of type S — no nil test, no nil-safe getter) must be non-nil in
// every value of S. For every composite literal of S that sets f from a local
// variable, that variable is followed along the control-flow graph of the
// constructing function: it is non-nil after `v = &T{…}` / `new(T)`, on the
// non-nil side of a test of v against nil, and "maybe nil" after any other
// assignment (a call result, a field of something else). At the literal it has
// to be non-nil on every path.
func NonNilFields(r *core.Run, rel string) {
	r.Rule("R-PANIC/P4c", "where a function defaults a pointer variable to a non-nil value (`if v == nil { v = &T{} }`) and stores it into a field of a package struct that is dereferenced directly elsewhere (x.f.g), the variable is non-nil on every path to the store (address of a literal, new, or the non-nil side of a nil test; any other later assignment makes it possibly nil again): the defaulting states the invariant, the store has to honour it")
	pk := r.P.Pkg(rel)
	if pk == nil {
		r.Fatal("anchor: package %s not found", rel)
		return
	}
	info := pk.TypesInfo
	// fields dereferenced directly: S.f where x.f.g occurs, g a field
	type fieldKey struct {
		s *types.Named
		f string
	}
	deref := map[fieldKey]token.Pos{}
	core.AllFuncDecls(pk, func(fd *ast.FuncDecl) {
		ast.Inspect(fd.Body, func(n ast.Node) bool {
			outer, ok := n.(*ast.SelectorExpr)
			if !ok {
				return true
			}
			if sel := info.Selections[outer]; sel == nil || sel.Kind() != types.FieldVal {
				return true
			}
			inner, ok := core.Unparen(outer.X).(*ast.SelectorExpr)
			if !ok {
				return true
			}
			isel := info.Selections[inner]
			if isel == nil || isel.Kind() != types.FieldVal {
				return true
			}
			if _, isPtr := info.TypeOf(inner).Underlying().(*types.Pointer); !isPtr {
				return true
			}
			st := core.NamedOf(info.TypeOf(inner.X))
			if st == nil || st.Obj().Pkg() != pk.Types {
				return true
			}
			// guarded reads do not count
			if f := FactsAt(info, fd.Body, outer); f.NonNil[core.ExprStr(inner)] {
				return true
			}
			k := fieldKey{st, inner.Sel.Name}
			if _, seen := deref[k]; !seen {
				deref[k] = outer.Pos()
			}
			return true
		})
	})
	var keys []fieldKey
	for k := range deref {
		keys = append(keys, k)
	}
	sort.Slice(keys, func(i, j int) bool {
		return keys[i].s.Obj().Name()+"."+keys[i].f < keys[j].s.Obj().Name()+"."+keys[j].f
	})
	n := 0
	for _, k := range keys {
		core.AllFuncDecls(pk, func(fd *ast.FuncDecl) {
			ast.Inspect(fd.Body, func(nd ast.Node) bool {
				cl, ok := nd.(*ast.CompositeLit)
				if !ok {
					return true
				}
				lt := info.TypeOf(cl)
				if p, isPtr := lt.(*types.Pointer); isPtr {
					lt = p.Elem()
				}
				if nt := core.NamedOf(lt); nt == nil || nt != k.s {
					return true
				}
				var val ast.Expr
				for _, el := range cl.Elts {
					if kv, ok := el.(*ast.KeyValueExpr); ok && core.ExprStr(kv.Key) == k.f {
						val = kv.Value
					}
				}
				// only where the constructing function itself states the belief that the value is
				// never nil, by defaulting it (`if v == nil { v = &T{} }`): the belief has to hold at
				// the point where the value is stored, not just where it was defaulted
				if !defaultsToNonNil(info, fd, val) {
					return true
				}
				n++
				o := r.Add("R-PANIC/P4c", fmt.Sprintf("%s.%s | %s.%s in literal", rel, core.FuncName(fd), k.s.Obj().Name(), k.f), cl.Pos(), fmt.Sprintf("%s.%s is never nil", k.s.Obj().Name(), k.f))
				where := r.P.Rel(deref[k])
				switch why, ok := nonNilAt(pk, fd, val, cl); {
				case val == nil:
					o.Fail("the literal leaves %s unset (nil), but it is dereferenced without a test at %s", k.f, where)
				case ok:
					o.Auto("%s", why)
				default:
					o.Fail("%s may be nil here (%s), and %s.%s is dereferenced without a nil test at %s: a nil pointer dereference for the inputs that take that path", core.ExprStr(val), why, k.s.Obj().Name(), k.f, where)
				}
				return true
			})
		})
	}
	r.Analysed["directly_dereferenced_pointer_fields"] = len(keys)
	r.Analysed["literals_checked_for_non_nil_fields"] = n
}

// defaultsToNonNil: fd contains `if v == nil { v = &T{…} }` (or new) for the variable e names.
func defaultsToNonNil(info *types.Info, fd *ast.FuncDecl, e ast.Expr) bool {
	id, ok := core.Unparen(e).(*ast.Ident)
	if !ok {
		return false
	}
	v := info.Uses[id]
	found := false
	ast.Inspect(fd.Body, func(n ast.Node) bool {
		is, ok := n.(*ast.IfStmt)
		if !ok || len(is.Body.List) != 1 {
			return true
		}
		b, ok := core.Unparen(is.Cond).(*ast.BinaryExpr)
		if !ok || b.Op != token.EQL {
			return true
		}
		x, y := b.X, b.Y
		if core.IsNilIdent(info, x) {
			x, y = y, x
		}
		xi, ok := core.Unparen(x).(*ast.Ident)
		if !ok || info.Uses[xi] != v || !core.IsNilIdent(info, y) {
			return true
		}
		as, ok := is.Body.List[0].(*ast.AssignStmt)
		if !ok || len(as.Lhs) != 1 || len(as.Rhs) != 1 {
			return true
		}
		li, ok := as.Lhs[0].(*ast.Ident)
		if !ok || info.Uses[li] != v {
			return true
		}
		if u, ok := core.Unparen(as.Rhs[0]).(*ast.UnaryExpr); ok && u.Op == token.AND {
			found = true
		}
		if c, ok := core.Unparen(as.Rhs[0]).(*ast.CallExpr); ok && core.CalleeName(info, c) == "builtin.new" {
			found = true
		}
		return true
	})
	return found
}

// nonNilAt: is the expression non-nil on every path from the function entry to at?
func nonNilAt(pk *packages.Package, fd *ast.FuncDecl, e ast.Expr, at ast.Node) (string, bool) {
	info := pk.TypesInfo
	e = core.Unparen(e)
	switch x := e.(type) {
	case *ast.UnaryExpr:
		if x.Op == token.AND {
			return "address of a literal", true
		}
	case *ast.CallExpr:
		if core.CalleeName(info, x) == "builtin.new" {
			return "new(T)", true
		}
		return "a call result", false
	case *ast.Ident:
		v, ok := info.Uses[x].(*types.Var)
		if !ok {
			return "not a variable", false
		}
		g := cfg.New(fd.Body, func(*ast.CallExpr) bool { return true })
		// per block: state of v at entry; 1 non-nil, 0 maybe nil
		type state struct {
			b  *cfg.Block
			nn bool
		}
		seen := map[state]bool{}
		bad := ""
		isV := func(ex ast.Expr) bool {
			id, ok := core.Unparen(ex).(*ast.Ident)
			return ok && (info.Uses[id] == v || info.Defs[id] == v)
		}
		nonNilValue := func(rhs ast.Expr) bool {
			rhs = core.Unparen(rhs)
			if u, ok := rhs.(*ast.UnaryExpr); ok && u.Op == token.AND {
				return true
			}
			if c, ok := rhs.(*ast.CallExpr); ok && core.CalleeName(info, c) == "builtin.new" {
				return true
			}
			return false
		}
		// edge refinement: taking this branch implies v != nil
		var impliesNonNil func(cond ast.Expr, branch bool) bool
		impliesNonNil = func(cond ast.Expr, branch bool) bool {
			switch c := core.Unparen(cond).(type) {
			case *ast.UnaryExpr:
				if c.Op == token.NOT {
					return impliesNonNil(c.X, !branch)
				}
			case *ast.BinaryExpr:
				switch c.Op {
				case token.LAND:
					if branch {
						return impliesNonNil(c.X, true) || impliesNonNil(c.Y, true)
					}
					return impliesNonNil(c.X, false) && impliesNonNil(c.Y, false)
				case token.LOR:
					if branch {
						return impliesNonNil(c.X, true) && impliesNonNil(c.Y, true)
					}
					return impliesNonNil(c.X, false) || impliesNonNil(c.Y, false)
				case token.NEQ, token.EQL:
					var other ast.Expr
					if isV(c.X) {
						other = c.Y
					} else if isV(c.Y) {
						other = c.X
					}
					if other != nil && core.IsNilIdent(info, other) {
						return (c.Op == token.NEQ) == branch
					}
				}
			}
			return false
		}
		var walk func(b *cfg.Block, nn bool)
		walk = func(b *cfg.Block, nn bool) {
			if bad != "" || seen[state{b, nn}] {
				return
			}
			seen[state{b, nn}] = true
			for _, nd := range b.Nodes {
				if nd.Pos() <= at.Pos() && at.End() <= nd.End() {
					if !nn {
						bad = "on some path its last assignment is not the address of a literal and no nil test follows"
					}
					return
				}
				switch s := nd.(type) {
				case *ast.AssignStmt:
					for i, l := range s.Lhs {
						if isV(l) {
							nn = len(s.Rhs) == len(s.Lhs) && nonNilValue(s.Rhs[i])
						}
					}
				case *ast.ValueSpec:
					for i, nm := range s.Names {
						if info.Defs[nm] == v {
							nn = i < len(s.Values) && nonNilValue(s.Values[i])
						}
					}
				}
			}
			cond := core.BlockCond(b)
			for i, sc := range b.Succs {
				walk(sc, nn || (cond != nil && impliesNonNil(cond, i == 0)))
			}
		}
		if len(g.Blocks) > 0 {
			walk(g.Blocks[0], false)
		}
		if bad != "" {
			return bad, false
		}
		return core.ExprStr(e) + " is the address of a literal, or has been tested non-nil, on every path to the literal", true
	}
	return "neither a local nor an allocation", false
}
