package rules

import (
	"go/ast"
	"go/token"
	"go/types"
	"strings"

	"golang.org/x/tools/go/packages"

	"j5verif/checker/core"
)

// orderedEffect: does the function (or, transitively, a module function it
// calls statically) accumulate into state that outlives the call in an
// order-preserving way — append to a field or to something reached through a
// parameter, string concatenation onto such a place, or a Write*/Fprint* on a
// writer that is not a local of the function? Calling such a function once per
// element of an unordered collection writes the collection's order into that
// state, whatever is done with the call's result.
//
// The summary is syntactic and may over-approximate (an accumulated list may be
// sorted later, far from the loop): a site it flags needs a recorded reason.
// It under-approximates through interface calls and function values.
var effectMemo = map[*ast.FuncDecl]string{}

const effectDepth = 5

func orderedEffect(pk *packages.Package, fd *ast.FuncDecl, depth int) string {
	if fd == nil || fd.Body == nil {
		return ""
	}
	if v, ok := effectMemo[fd]; ok {
		return v
	}
	effectMemo[fd] = "" // cycles: assume none while computing
	info := pk.TypesInfo
	// objects that name state from outside the function: receiver, parameters, package-level variables
	outside := func(e ast.Expr) bool {
		root := e
		for {
			switch x := core.Unparen(root).(type) {
			case *ast.SelectorExpr:
				root = x.X
				continue
			case *ast.IndexExpr:
				root = x.X
				continue
			case *ast.StarExpr:
				root = x.X
				continue
			case *ast.UnaryExpr:
				root = x.X
				continue
			}
			break
		}
		id, ok := core.Unparen(root).(*ast.Ident)
		if !ok {
			return false
		}
		v, ok := info.Uses[id].(*types.Var)
		if !ok {
			return false
		}
		if v.Parent() == pk.Types.Scope() {
			return true // package-level
		}
		// parameter or receiver: declared in the function's signature
		return v.Pos() >= fd.Pos() && v.Pos() < fd.Body.Lbrace
	}
	found := ""
	ast.Inspect(fd.Body, func(n ast.Node) bool {
		if found != "" {
			return false
		}
		switch x := n.(type) {
		case *ast.FuncLit:
			return false
		case *ast.AssignStmt:
			for i, l := range x.Lhs {
				if _, isSel := core.Unparen(l).(*ast.SelectorExpr); !isSel {
					if _, isStar := core.Unparen(l).(*ast.StarExpr); !isStar {
						continue
					}
				}
				if !outside(l) {
					continue
				}
				if x.Tok == token.ADD_ASSIGN {
					if b, ok := info.TypeOf(l).Underlying().(*types.Basic); ok && b.Info()&types.IsString != 0 {
						found = "concatenates onto " + core.ExprStr(l)
					}
					continue
				}
				if len(x.Rhs) == len(x.Lhs) {
					if c, ok := core.Unparen(x.Rhs[i]).(*ast.CallExpr); ok && core.CalleeName(info, c) == "builtin.append" && core.ExprStr(c.Args[0]) == core.ExprStr(l) {
						found = "appends to " + core.ExprStr(l)
					}
				}
			}
		case *ast.CallExpr:
			name := core.CalleeName(info, x)
			short := name[strings.LastIndex(name, ".")+1:]
			switch {
			case strings.HasPrefix(name, "fmt.Fprint") && len(x.Args) > 0:
				if outside(x.Args[0]) {
					found = "writes to " + core.ExprStr(x.Args[0])
				}
			case short == "Write" || short == "WriteString" || short == "WriteByte" || short == "WriteRune":
				if s, ok := x.Fun.(*ast.SelectorExpr); ok && outside(s.X) && !core.IsModule(pkgOfName(name)) {
					found = "writes to " + core.ExprStr(s.X)
				}
			}
			if found != "" || depth <= 0 {
				return true
			}
			fn := core.CalleeFunc(info, x)
			if fn == nil || fn.Pkg() == nil || !core.IsSource(fn.Pkg().Path()) {
				return true
			}
			cpk := core.Current.ByPkg[fn.Pkg().Path()]
			if cpk == nil {
				return true
			}
			cd := core.DeclOf(cpk, fn.Origin())
			if cd == nil {
				return true
			}
			// the callee's effect reaches outside this function only through what is passed to it
			passes := false
			if s, ok := x.Fun.(*ast.SelectorExpr); ok && info.Selections[s] != nil && outside(s.X) {
				passes = true
			}
			for _, a := range x.Args {
				if outside(a) && pointerLike(info.TypeOf(a)) {
					passes = true
				}
			}
			if !passes {
				return true
			}
			if e := orderedEffect(cpk, cd, depth-1); e != "" {
				found = "calls " + core.FuncName(cd) + ", which " + e
			}
		}
		return true
	})
	effectMemo[fd] = found
	return found
}

func pkgOfName(full string) string {
	s := strings.TrimPrefix(strings.TrimPrefix(full, "("), "*")
	if i := strings.LastIndex(s, "/"); i >= 0 {
		if j := strings.Index(s[i:], "."); j >= 0 {
			return s[:i+j]
		}
	}
	if j := strings.Index(s, "."); j >= 0 {
		return s[:j]
	}
	return s
}

func pointerLike(t types.Type) bool {
	if t == nil {
		return false
	}
	switch t.Underlying().(type) {
	case *types.Pointer, *types.Map, *types.Slice, *types.Interface, *types.Signature, *types.Chan:
		return true
	}
	return false
}

// callEffects looks at every call inside the given nodes of a loop body whose
// result is used (initialisers, right-hand sides, conditions, return values) and
// reports the first that has an ordered effect on state living outside the
// body: receiver or pointer arguments rooted in a variable that is not a
// per-iteration local.
func callEffects(pk *packages.Package, local map[types.Object]bool, nodes ...ast.Node) string {
	info := pk.TypesInfo
	perIter := func(e ast.Expr) bool {
		root := e
		for {
			switch x := core.Unparen(root).(type) {
			case *ast.SelectorExpr:
				root = x.X
				continue
			case *ast.IndexExpr:
				root = x.X
				continue
			case *ast.StarExpr:
				root = x.X
				continue
			case *ast.UnaryExpr:
				root = x.X
				continue
			case *ast.CallExpr:
				return true // a fresh value
			case *ast.CompositeLit, *ast.BasicLit:
				return true
			}
			break
		}
		id, ok := core.Unparen(root).(*ast.Ident)
		if !ok {
			return false
		}
		return local[info.Uses[id]]
	}
	out := ""
	for _, nd := range nodes {
		if nd == nil || out != "" {
			continue
		}
		ast.Inspect(nd, func(n ast.Node) bool {
			if out != "" {
				return false
			}
			if _, ok := n.(*ast.FuncLit); ok {
				return false
			}
			c, ok := n.(*ast.CallExpr)
			if !ok {
				return true
			}
			fn := core.CalleeFunc(info, c)
			if fn == nil || fn.Pkg() == nil || !core.IsSource(fn.Pkg().Path()) {
				return true
			}
			cpk := core.Current.ByPkg[fn.Pkg().Path()]
			if cpk == nil {
				return true
			}
			cd := core.DeclOf(cpk, fn.Origin())
			if cd == nil {
				return true
			}
			shared := false
			if s, ok := c.Fun.(*ast.SelectorExpr); ok && info.Selections[s] != nil && !perIter(s.X) {
				shared = true
			}
			for _, a := range c.Args {
				if pointerLike(info.TypeOf(a)) && !perIter(a) {
					if id, ok := core.Unparen(a).(*ast.Ident); ok && id.Name == "nil" {
						continue
					}
					shared = true
				}
			}
			if !shared {
				return true
			}
			if e := orderedEffect(cpk, cd, effectDepth); e != "" {
				out = "call of " + core.FuncName(cd) + ", which " + e
			}
			return true
		})
	}
	return out
}
