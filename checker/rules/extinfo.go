// Package rules holds the reusable analyses (rule families of DESIGN.md §3).
package rules

import (
	"fmt"
	"go/ast"
	"go/token"
	"go/types"

	"j5verif/checker/core"
)

// ExtInfo is what the generated []protoimpl.ExtensionInfo literal declares for
// one E_* extension variable.
type ExtInfo struct {
	Var      types.Object
	Extended types.Type // e.g. *descriptorpb.FieldOptions
	ExtType  types.Type // e.g. *ext_j5pb.FieldOptions
	Filename string     // proto file that declares the extension
	Name     string     // full proto name
}

// ResolveExt reads the ExtensionInfo literal an E_* package variable points
// into: `E_X = &file_..._extTypes[i]`.
func ResolveExt(p *core.Prog, obj types.Object) (*ExtInfo, error) {
	if obj == nil || obj.Pkg() == nil {
		return nil, fmt.Errorf("not a package-level object")
	}
	pk := p.ByPkg[obj.Pkg().Path()]
	if pk == nil || len(pk.Syntax) == 0 {
		return nil, fmt.Errorf("no syntax for package %s", obj.Pkg().Path())
	}
	info := pk.TypesInfo
	find := func(o types.Object) ast.Expr {
		for _, f := range pk.Syntax {
			for _, d := range f.Decls {
				gd, ok := d.(*ast.GenDecl)
				if !ok || gd.Tok != token.VAR {
					continue
				}
				for _, s := range gd.Specs {
					vs := s.(*ast.ValueSpec)
					for i, n := range vs.Names {
						if info.Defs[n] == o && i < len(vs.Values) {
							return vs.Values[i]
						}
					}
				}
			}
		}
		return nil
	}
	init := find(obj)
	ue, ok := init.(*ast.UnaryExpr)
	if !ok || ue.Op != token.AND {
		return nil, fmt.Errorf("%s: initialiser is not &arr[i]", obj.Name())
	}
	ix, ok := ue.X.(*ast.IndexExpr)
	if !ok {
		return nil, fmt.Errorf("%s: initialiser is not &arr[i]", obj.Name())
	}
	idx, ok := core.ConstInt(info, ix.Index)
	if !ok {
		return nil, fmt.Errorf("%s: non-constant index", obj.Name())
	}
	arrObj := core.UsedObj(info, ix.X)
	lit, ok := find(arrObj).(*ast.CompositeLit)
	if !ok || int(idx) >= len(lit.Elts) {
		return nil, fmt.Errorf("%s: extension table literal not found", obj.Name())
	}
	el, ok := lit.Elts[idx].(*ast.CompositeLit)
	if !ok {
		return nil, fmt.Errorf("%s: table element is not a literal", obj.Name())
	}
	ei := &ExtInfo{Var: obj}
	for _, e := range el.Elts {
		kv, ok := e.(*ast.KeyValueExpr)
		if !ok {
			continue
		}
		k, _ := kv.Key.(*ast.Ident)
		if k == nil {
			continue
		}
		switch k.Name {
		case "ExtendedType":
			ei.Extended = info.TypeOf(kv.Value)
		case "ExtensionType":
			ei.ExtType = info.TypeOf(kv.Value)
		case "Filename":
			ei.Filename, _ = core.ConstString(info, kv.Value)
		case "Name":
			ei.Name, _ = core.ConstString(info, kv.Value)
		}
	}
	if ei.Extended == nil || ei.ExtType == nil || ei.Filename == "" {
		return nil, fmt.Errorf("%s: incomplete ExtensionInfo literal", obj.Name())
	}
	return ei, nil
}

const (
	fnSetExtension = "google.golang.org/protobuf/proto.SetExtension"
	fnGetExtension = "google.golang.org/protobuf/proto.GetExtension"
	fnHasExtension = "google.golang.org/protobuf/proto.HasExtension"
)

// ExtTyping arms G1 and G2 over the given packages: every SetExtension
// passes the extension's declared Go types; every GetExtension(...).(T)
// asserts the declared type.
func ExtTyping(r *core.Run, rels []string) {
	r.Rule("R-EXT/G1", "proto.SetExtension(m, E, v): static type of m equals E's ExtendedType and static type of v equals E's ExtensionType, both read from the generated ExtensionInfo literal E points into (a mismatch panics at run time)")
	r.Rule("R-EXT/G2", "proto.GetExtension(m, E).(T): T equals E's ExtensionType (a mismatch panics); the comma-ok form is accepted as is")
	cache := map[types.Object]*ExtInfo{}
	resolve := func(info *types.Info, e ast.Expr) (*ExtInfo, error) {
		o := core.UsedObj(info, e)
		if o == nil {
			return nil, fmt.Errorf("extension argument %s is not a package variable", core.ExprStr(e))
		}
		if ei, ok := cache[o]; ok {
			return ei, nil
		}
		if _, isVar := o.(*types.Var); !isVar || o.Parent() != o.Pkg().Scope() {
			return nil, fmt.Errorf("extension argument %s is not a package-level E_* variable (dynamic extension type)", core.ExprStr(e))
		}
		ei, err := ResolveExt(r.P, o)
		if err == nil {
			cache[o] = ei
		}
		return ei, err
	}
	nfun := 0
	for _, rel := range rels {
		pk := r.P.Pkg(rel)
		if pk == nil {
			r.Fatal("anchor: package %s not found", rel)
			continue
		}
		info := pk.TypesInfo
		core.AllFuncDecls(pk, func(fd *ast.FuncDecl) {
			nfun++
			fname := rel + "." + core.FuncName(fd)
			ast.Inspect(fd.Body, func(n ast.Node) bool {
				switch x := n.(type) {
				case *ast.CallExpr:
					if core.CalleeName(info, x) != fnSetExtension || len(x.Args) != 3 {
						return true
					}
					key := fmt.Sprintf("%s | SetExtension(%s, %s)", fname, core.ExprStr(x.Args[1]), litHead(x.Args[2]))
					o := r.Add("R-EXT/G1", key, x.Pos(), "SetExtension "+core.ExprStr(x.Args[1]))
					ei, err := resolve(info, x.Args[1])
					if err != nil {
						o.Fail("%v", err)
						return true
					}
					mt, vt := info.TypeOf(x.Args[0]), info.TypeOf(x.Args[2])
					switch {
					case !types.Identical(mt, ei.Extended):
						o.Fail("extended message has type %s, extension %s extends %s: SetExtension panics", core.TypeStr(mt), ei.Name, core.TypeStr(ei.Extended))
					case !types.Identical(vt, ei.ExtType):
						o.Fail("value has type %s, extension %s is declared with %s: SetExtension panics ('invalid type')", core.TypeStr(vt), ei.Name, core.TypeStr(ei.ExtType))
					default:
						o.Auto("m: %s, v: %s as declared for %s", core.TypeStr(mt), core.TypeStr(vt), ei.Name)
					}
				case *ast.TypeAssertExpr:
					c, ok := core.Unparen(x.X).(*ast.CallExpr)
					if !ok || core.CalleeName(info, c) != fnGetExtension || x.Type == nil {
						return true
					}
					key := fmt.Sprintf("%s | GetExtension(%s).(%s)", fname, core.ExprStr(c.Args[1]), core.ExprStr(x.Type))
					o := r.Add("R-EXT/G2", key, x.Pos(), "GetExtension assertion "+core.ExprStr(c.Args[1]))
					ei, err := resolve(info, c.Args[1])
					if err != nil {
						o.Fail("%v", err)
						return true
					}
					at := info.TypeOf(x.Type)
					if types.Identical(at, ei.ExtType) {
						o.Auto("asserts the declared type %s", core.TypeStr(at))
					} else if isCommaOk(fd, x) {
						o.Auto("comma-ok assertion (cannot panic)")
					} else {
						o.Fail("asserts %s but %s is declared with %s: the assertion panics", core.TypeStr(at), ei.Name, core.TypeStr(ei.ExtType))
					}
				}
				return true
			})
		})
	}
	r.Analysed["functions_scanned_for_extensions"] = nfun
}

func litHead(e ast.Expr) string {
	e = core.Unparen(e)
	if u, ok := e.(*ast.UnaryExpr); ok && u.Op == token.AND {
		if cl, ok := u.X.(*ast.CompositeLit); ok {
			return "&" + core.ExprStr(cl.Type) + "{…}"
		}
	}
	return core.ExprStr(e)
}

func isCommaOk(fd *ast.FuncDecl, ta *ast.TypeAssertExpr) bool {
	ok := false
	ast.Inspect(fd.Body, func(n ast.Node) bool {
		switch x := n.(type) {
		case *ast.AssignStmt:
			if len(x.Lhs) == 2 && len(x.Rhs) == 1 && core.Unparen(x.Rhs[0]) == ast.Expr(ta) {
				ok = true
			}
		case *ast.ValueSpec:
			if len(x.Names) == 2 && len(x.Values) == 1 && core.Unparen(x.Values[0]) == ast.Expr(ta) {
				ok = true
			}
		}
		return !ok
	})
	return ok
}
