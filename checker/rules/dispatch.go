package rules

import (
	"fmt"
	"go/ast"
	"go/types"
	"sort"
	"strings"

	"j5verif/checker/core"
)

// DispatchOrder arms R-EXH/X4 on a type switch whose cases are interface
// types: for every concrete type in implRel implementing the switched
// interface, the FIRST case it satisfies must be one of the roles the type
// declares for itself through its `AsX() (X, bool)` methods that return true.
// Reordering the cases, or a type that newly satisfies an earlier interface,
// changes a row and is reported.
func DispatchOrder(r *core.Run, rel, fn, implRel string) {
	r.Rule("R-EXH/X4", "type switch over interface cases: each concrete implementation's first matching case must be a role the implementation declares via an AsX() method returning (self, true); implementations matching no case are reported")
	fd, pk := r.P.FuncDecl(rel, fn)
	if fd == nil {
		r.Fatal("anchor: %s.%s not found", rel, fn)
		return
	}
	info := pk.TypesInfo
	var ts *ast.TypeSwitchStmt
	ast.Inspect(fd.Body, func(n ast.Node) bool {
		if t, ok := n.(*ast.TypeSwitchStmt); ok && ts == nil {
			ts = t
		}
		return true
	})
	if ts == nil {
		r.Fatal("%s.%s: no type switch", rel, fn)
		return
	}
	var tagType types.Type
	switch a := ts.Assign.(type) {
	case *ast.AssignStmt:
		tagType = info.TypeOf(a.Rhs[0].(*ast.TypeAssertExpr).X)
	case *ast.ExprStmt:
		tagType = info.TypeOf(a.X.(*ast.TypeAssertExpr).X)
	}
	iface, ok := tagType.Underlying().(*types.Interface)
	if !ok {
		r.Fatal("%s.%s: switched value is not an interface", rel, fn)
		return
	}
	type caseT struct {
		name string
		t    types.Type
	}
	var cases []caseT
	for _, cl := range ts.Body.List {
		for _, e := range cl.(*ast.CaseClause).List {
			cases = append(cases, caseT{core.TypeStr(info.TypeOf(e)), info.TypeOf(e)})
		}
	}
	ipk := r.P.Pkg(implRel)
	if ipk == nil {
		r.Fatal("anchor: package %s not found", implRel)
		return
	}
	impls := core.Implementers(ipk.Types, iface)
	sort.Slice(impls, func(i, j int) bool { return impls[i].Obj().Name() < impls[j].Obj().Name() })
	n := 0
	inst := Instantiated(r, implRel)
	for _, T := range impls {
		pt := types.NewPointer(T)
		roles := DeclaredRoles(r, implRel, T)
		if len(roles) == 0 || !inst[T.Obj().Name()] {
			continue // embedded helper types (fieldDefaults, base*, leaf*, mutable*): never instantiated as a Field on their own
		}
		n++
		first := ""
		for _, c := range cases {
			ci, ok := c.t.Underlying().(*types.Interface)
			if ok && (types.Implements(pt, ci) || types.Implements(T, ci)) {
				first = c.name
				break
			}
			if !ok && types.Identical(c.t, pt) {
				first = c.name
				break
			}
		}
		o := r.Add("R-EXH/X4", fmt.Sprintf("%s.%s | %s", rel, fn, T.Obj().Name()), T.Obj().Pos(), "dispatch of "+T.Obj().Name())
		var rl []string
		for k := range roles {
			rl = append(rl, k)
		}
		sort.Strings(rl)
		switch {
		case first == "":
			o.Fail("implementation %s (roles %v) matches no case", T.Obj().Name(), rl)
		case roles[first]:
			o.Auto("first matching case %s is a declared role (%s)", first, strings.Join(rl, ", "))
		default:
			o.Fail("first matching case is %s but %s declares itself as %v: it would be handled by the wrong arm", first, T.Obj().Name(), rl)
		}
	}
	r.Analysed["dispatch_implementations"] = n
}

// declaredRoles: result interfaces of T's own AsX() methods whose body returns
// (receiver, true).
func DeclaredRoles(r *core.Run, rel string, T *types.Named) map[string]bool {
	out := map[string]bool{}
	pk := r.P.Pkg(rel)
	core.AllFuncDecls(pk, func(fd *ast.FuncDecl) {
		if core.RecvName(fd) != T.Obj().Name() || !strings.HasPrefix(fd.Name.Name, "As") || fd.Type.Results == nil || len(fd.Type.Results.List) != 2 {
			return
		}
		isTrue := false
		ast.Inspect(fd.Body, func(n ast.Node) bool {
			if ret, ok := n.(*ast.ReturnStmt); ok && len(ret.Results) == 2 && core.ExprStr(ret.Results[1]) == "true" {
				isTrue = true
			}
			return true
		})
		if isTrue {
			out[core.TypeStr(pk.TypesInfo.TypeOf(fd.Type.Results.List[0].Type))] = true
		}
	})
	return out
}

// Instantiated returns the named struct types of a package that are created by
// a composite literal that is not itself a field value of an enclosing
// composite literal (i.e. values that can exist on their own, as opposed to
// embedded base structs).
func Instantiated(r *core.Run, rel string) map[string]bool {
	pk := r.P.Pkg(rel)
	out := map[string]bool{}
	if pk == nil {
		return out
	}
	for _, f := range pk.Syntax {
		var stack []ast.Node
		ast.Inspect(f, func(n ast.Node) bool {
			if n == nil {
				stack = stack[:len(stack)-1]
				return true
			}
			if cl, ok := n.(*ast.CompositeLit); ok {
				nested := false
				for i := len(stack) - 1; i >= 0; i-- {
					if _, isLit := stack[i].(*ast.CompositeLit); isLit {
						nested = true
						break
					}
					if _, isFn := stack[i].(*ast.FuncLit); isFn {
						break
					}
					if _, isStmt := stack[i].(ast.Stmt); isStmt {
						break
					}
				}
				if !nested {
					if nt := core.NamedOf(pk.TypesInfo.TypeOf(cl)); nt != nil {
						out[nt.Obj().Name()] = true
					}
				}
			}
			stack = append(stack, n)
			return true
		})
	}
	return out
}
