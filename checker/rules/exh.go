package rules

import (
	"fmt"
	"go/ast"
	"go/constant"
	"go/token"
	"go/types"
	"sort"
	"strings"

	"j5verif/checker/core"
)

// Universe of a closed interface: the named types T (in the interface's own
// package) such that *T or T implements it.
func ClosedUniverse(r *core.Run, pkgPath, ifaceName string) (*types.Named, []*types.Named) {
	it := r.P.LookupType(pkgPath, ifaceName)
	if it == nil {
		r.Fatal("anchor: interface %s.%s not found", pkgPath, ifaceName)
		return nil, nil
	}
	iface, ok := it.Underlying().(*types.Interface)
	if !ok {
		r.Fatal("anchor: %s.%s is not an interface", pkgPath, ifaceName)
		return nil, nil
	}
	impl := core.Implementers(it.Obj().Pkg(), iface)
	sort.Slice(impl, func(i, j int) bool { return impl[i].Obj().Name() < impl[j].Obj().Name() })
	return it, impl
}

// subjectType returns the static type of a type switch's subject.
func subjectType(info *types.Info, ts *ast.TypeSwitchStmt) types.Type {
	switch a := ts.Assign.(type) {
	case *ast.AssignStmt:
		if ta, ok := a.Rhs[0].(*ast.TypeAssertExpr); ok {
			return info.TypeOf(ta.X)
		}
	case *ast.ExprStmt:
		if ta, ok := a.X.(*ast.TypeAssertExpr); ok {
			return info.TypeOf(ta.X)
		}
	}
	return nil
}

// TypeSwitchCovers arms R-EXH/X1: every type switch in rel.fn whose subject
// has the closed interface type ifacePkg.ifaceName lists every implementation
// of that interface, except those in allow (type name -> reason). minSwitches
// guards against the switch disappearing.
func TypeSwitchCovers(r *core.Run, rel, fn, ifacePkg, ifaceName string, allow map[string]string, minSwitches int) {
	r.Rule("R-EXH/X1", "a type switch over a closed (generated oneof or module-internal) interface lists every implementation in the universe computed from go/types, or the missing ones are allow-listed with a reason; a new implementation automatically creates an obligation in every such switch")
	it, universe := ClosedUniverse(r, ifacePkg, ifaceName)
	if it == nil {
		return
	}
	fd, pk := r.P.FuncDecl(rel, fn)
	if fd == nil {
		r.Fatal("anchor: %s.%s not found", rel, fn)
		return
	}
	info := pk.TypesInfo
	nsw := 0
	// the function itself; when it has no such switch (it was moved into a
	// helper), the same-package helpers it calls
	var root ast.Node = fd.Body
	if !hasTypeSwitchOver(info, fd.Body, it) {
		root = core.TreeBody(pk, fd)
	}
	ast.Inspect(root, func(n ast.Node) bool {
		ts, ok := n.(*ast.TypeSwitchStmt)
		if !ok {
			return true
		}
		st := subjectType(info, ts)
		if st == nil || !types.Identical(st, it) {
			return true
		}
		nsw++
		covered := map[string]bool{}
		hasDefaultErr := false
		for _, cl := range ts.Body.List {
			cc := cl.(*ast.CaseClause)
			if cc.List == nil {
				hasDefaultErr = true
			}
			for _, e := range cc.List {
				if n := core.NamedOf(info.TypeOf(e)); n != nil {
					covered[n.Obj().Name()] = true
				}
			}
		}
		_ = hasDefaultErr
		for _, T := range universe {
			name := T.Obj().Name()
			o := r.Add("R-EXH/X1", fmt.Sprintf("%s.%s | switch#%d over %s | %s", rel, fn, nsw, ifaceName, name), ts.Pos(), fmt.Sprintf("case for %s", name))
			switch {
			case covered[name]:
				o.Auto("has a case")
			case allow[name] != "":
				o.Status = "table:" + allow[name]
			default:
				o.Fail("%s implements %s but the switch in %s has no case for it: values of that kind fall into the default arm", name, ifaceName, fn)
			}
		}
		return true
	})
	if nsw < minSwitches {
		r.Fatal("%s.%s: expected at least %d type switch(es) over %s, found %d", rel, fn, minSwitches, ifaceName, nsw)
	}
}

// ConstSwitchCovers arms R-EXH/X2: every `switch` in rel.fn whose tag has the
// named constant type lists every declared constant of that type except the
// allow-listed ones.
func ConstSwitchCovers(r *core.Run, rel, fn, typePkg, typeName string, allow map[string]string, minSwitches int) {
	r.Rule("R-EXH/X2", "a switch over an enum-typed value lists every declared constant of that type, or the missing ones are allow-listed with a reason")
	tn := r.P.LookupType(typePkg, typeName)
	if tn == nil {
		r.Fatal("anchor: type %s.%s not found", typePkg, typeName)
		return
	}
	// constants of the type
	var consts []*types.Const
	sc := tn.Obj().Pkg().Scope()
	for _, n := range sc.Names() {
		if c, ok := sc.Lookup(n).(*types.Const); ok && types.Identical(c.Type(), tn) {
			consts = append(consts, c)
		}
	}
	sort.Slice(consts, func(i, j int) bool { return consts[i].Name() < consts[j].Name() })
	fd, pk := r.P.FuncDecl(rel, fn)
	if fd == nil {
		r.Fatal("anchor: %s.%s not found", rel, fn)
		return
	}
	info := pk.TypesInfo
	nsw := 0
	var root ast.Node = fd.Body
	own := 0
	ast.Inspect(fd.Body, func(n ast.Node) bool {
		if sw, ok := n.(*ast.SwitchStmt); ok && sw.Tag != nil {
			if t := info.TypeOf(sw.Tag); t != nil && types.Identical(t, tn) {
				own++
			}
		}
		return true
	})
	if own < minSwitches {
		root = core.TreeBody(pk, fd) // some were moved into helpers
	}
	ast.Inspect(root, func(n ast.Node) bool {
		sw, ok := n.(*ast.SwitchStmt)
		if !ok || sw.Tag == nil {
			return true
		}
		if t := info.TypeOf(sw.Tag); t == nil || !types.Identical(t, tn) {
			return true
		}
		nsw++
		covered := map[string]bool{}
		for _, cl := range sw.Body.List {
			for _, e := range cl.(*ast.CaseClause).List {
				if tv, ok := info.Types[e]; ok && tv.Value != nil {
					for _, c := range consts {
						if constant.Compare(c.Val(), token.EQL, tv.Value) {
							covered[c.Name()] = true
						}
					}
				}
			}
		}
		for _, c := range consts {
			o := r.Add("R-EXH/X2", fmt.Sprintf("%s.%s | switch#%d over %s | %s", rel, fn, nsw, typeName, c.Name()), sw.Pos(), "case for "+c.Name())
			switch {
			case covered[c.Name()]:
				o.Auto("has a case")
			case allow[c.Name()] != "":
				o.Status = "table:" + allow[c.Name()]
			case strings.HasSuffix(c.Name(), "_UNSPECIFIED") && allow["*_UNSPECIFIED"] != "":
				o.Status = "table:" + allow["*_UNSPECIFIED"]
			default:
				o.Fail("constant %s of %s has no case in %s", c.Name(), typeName, fn)
			}
		}
		return true
	})
	if nsw < minSwitches {
		r.Fatal("%s.%s: expected at least %d switch(es) over %s, found %d", rel, fn, minSwitches, typeName, nsw)
	}
}

// UniqueCase arms R-EXH/X4u: in the (first) type switch of rel.fn whose cases
// are interfaces, every concrete implementation (in implRel) of the subject
// interface satisfies exactly one case, so the dispatch does not depend on
// case order.
func UniqueCase(r *core.Run, rel, fn, implRel string) {
	r.Rule("R-EXH/X4u", "every concrete implementation of the switched interface satisfies exactly one case of the type switch (no ambiguity, no gap), so its handling does not depend on case order")
	fd, pk := r.P.FuncDecl(rel, fn)
	if fd == nil {
		r.Fatal("anchor: %s.%s not found", rel, fn)
		return
	}
	info := pk.TypesInfo
	var ts *ast.TypeSwitchStmt
	ast.Inspect(fd.Body, func(n ast.Node) bool {
		if t, ok := n.(*ast.TypeSwitchStmt); ok && ts == nil {
			ts = t
		}
		return true
	})
	if ts == nil {
		r.Fatal("%s.%s: no type switch", rel, fn)
		return
	}
	st := subjectType(info, ts)
	iface, ok := st.Underlying().(*types.Interface)
	if !ok {
		r.Fatal("%s.%s: subject is not an interface", rel, fn)
		return
	}
	ipk := r.P.Pkg(implRel)
	impls := core.Implementers(ipk.Types, iface)
	sort.Slice(impls, func(i, j int) bool { return impls[i].Obj().Name() < impls[j].Obj().Name() })
	inst := Instantiated(r, implRel)
	for _, T := range impls {
		if len(DeclaredRoles(r, implRel, T)) == 0 || !inst[T.Obj().Name()] {
			continue // embedded base types
		}
		var matches []string
		for _, cl := range ts.Body.List {
			for _, e := range cl.(*ast.CaseClause).List {
				ct := info.TypeOf(e)
				if ci, ok := ct.Underlying().(*types.Interface); ok && (types.Implements(types.NewPointer(T), ci) || types.Implements(T, ci)) {
					matches = append(matches, core.TypeStr(ct))
				}
			}
		}
		o := r.Add("R-EXH/X4u", fmt.Sprintf("%s.%s | %s", rel, fn, T.Obj().Name()), T.Obj().Pos(), "cases matched by "+T.Obj().Name())
		switch len(matches) {
		case 1:
			o.Auto("matches only %s", matches[0])
		case 0:
			o.Fail("%s matches no case: such fields cannot be processed", T.Obj().Name())
		default:
			o.Fail("%s matches %v: which arm handles it depends on case order", T.Obj().Name(), matches)
		}
	}
}

// ConcreteReturns computes the concrete (non-interface) types that result
// #idx of rel.fn can hold, following returns of calls to module functions and
// locals assigned from such calls. Unresolvable returns are reported in unk.
func ConcreteReturns(r *core.Run, rel, fn string, idx int) (out map[string]bool, unk []string) {
	out = map[string]bool{}
	seen := map[string]bool{}
	var visit func(rel, fn string, idx int)
	visit = func(rel, fn string, idx int) {
		key := fmt.Sprintf("%s.%s#%d", rel, fn, idx)
		if seen[key] {
			return
		}
		seen[key] = true
		fd, pk := r.P.FuncDecl(rel, fn)
		if fd == nil {
			unk = append(unk, key+" (not found)")
			return
		}
		info := pk.TypesInfo
		var resolve func(e ast.Expr)
		resolve = func(e ast.Expr) {
			e = core.Unparen(e)
			if core.IsNilIdent(info, e) {
				return
			}
			t := info.TypeOf(e)
			if t == nil {
				unk = append(unk, core.ExprStr(e))
				return
			}
			if tup, ok := t.(*types.Tuple); ok {
				t = tup.At(idx).Type()
			}
			if _, isIface := t.Underlying().(*types.Interface); !isIface {
				out[core.TypeStr(t)] = true
				return
			}
			switch x := e.(type) {
			case *ast.CallExpr:
				if f := core.CalleeFunc(info, x); f != nil && f.Pkg() != nil && core.IsSource(f.Pkg().Path()) {
					name := f.Name()
					if sig := f.Type().(*types.Signature); sig.Recv() != nil {
						if n := core.NamedOf(sig.Recv().Type()); n != nil {
							name = n.Obj().Name() + "." + name
						}
					}
					visit(strings.TrimPrefix(f.Pkg().Path(), core.Module+"/"), name, 0)
					return
				}
				unk = append(unk, core.ExprStr(e))
			case *ast.Ident:
				// assignments to the identifier
				obj := info.Uses[x]
				found := false
				ast.Inspect(fd.Body, func(n ast.Node) bool {
					as, ok := n.(*ast.AssignStmt)
					if !ok {
						return true
					}
					for i, l := range as.Lhs {
						li, ok := l.(*ast.Ident)
						if !ok || (info.Defs[li] != obj && info.Uses[li] != obj) {
							continue
						}
						found = true
						if len(as.Rhs) == len(as.Lhs) {
							resolve(as.Rhs[i])
						} else if len(as.Rhs) == 1 {
							if c, ok := as.Rhs[0].(*ast.CallExpr); ok {
								if f := core.CalleeFunc(info, c); f != nil && f.Pkg() != nil && core.IsSource(f.Pkg().Path()) {
									name := f.Name()
									if sig := f.Type().(*types.Signature); sig.Recv() != nil {
										if n := core.NamedOf(sig.Recv().Type()); n != nil {
											name = n.Obj().Name() + "." + name
										}
									}
									visit(strings.TrimPrefix(f.Pkg().Path(), core.Module+"/"), name, i)
									continue
								}
							}
							unk = append(unk, core.ExprStr(as.Rhs[0]))
						}
					}
					return true
				})
				if !found {
					unk = append(unk, x.Name)
				}
			default:
				unk = append(unk, core.ExprStr(e))
			}
		}
		ast.Inspect(fd.Body, func(n ast.Node) bool {
			if _, isLit := n.(*ast.FuncLit); isLit {
				return false
			}
			ret, ok := n.(*ast.ReturnStmt)
			if !ok || len(ret.Results) == 0 {
				return true
			}
			if len(ret.Results) == 1 && idx > 0 {
				resolve(ret.Results[0])
				return true
			}
			if idx < len(ret.Results) {
				resolve(ret.Results[idx])
			}
			return true
		})
	}
	visit(rel, fn, idx)
	return out, unk
}

// ProducerConsumer arms R-EXH/X3: every concrete type the producer can return
// has a case in the (first) type switch of the consumer.
func ProducerConsumer(r *core.Run, prodRel, prodFn string, idx int, consRel, consFn string) {
	r.Rule("R-EXH/X3", "every concrete type that can flow out of the producer (followed through returned calls and locals) has a case in the consumer's type switch; unresolvable producer returns are reported")
	types_, unk := ConcreteReturns(r, prodRel, prodFn, idx)
	fd, pk := r.P.FuncDecl(consRel, consFn)
	if fd == nil {
		r.Fatal("anchor: %s.%s not found", consRel, consFn)
		return
	}
	info := pk.TypesInfo
	covered := map[string]bool{}
	var ts *ast.TypeSwitchStmt
	ast.Inspect(fd.Body, func(n ast.Node) bool {
		if t, ok := n.(*ast.TypeSwitchStmt); ok && ts == nil {
			ts = t
		}
		return true
	})
	if ts == nil {
		r.Fatal("%s.%s: no type switch", consRel, consFn)
		return
	}
	for _, cl := range ts.Body.List {
		for _, e := range cl.(*ast.CaseClause).List {
			covered[core.TypeStr(info.TypeOf(e))] = true
		}
	}
	var names []string
	for t := range types_ {
		names = append(names, t)
	}
	sort.Strings(names)
	for _, t := range names {
		o := r.Add("R-EXH/X3", fmt.Sprintf("%s.%s → %s.%s | %s", prodRel, prodFn, consRel, consFn, t), ts.Pos(), "type "+t+" produced by "+prodFn)
		if covered[t] {
			o.Auto("has a case")
		} else {
			o.Fail("%s can return %s but %s has no case for it", prodFn, t, consFn)
		}
	}
	for _, u := range unk {
		r.Add("R-EXH/X3", fmt.Sprintf("%s.%s | unresolved return %s", prodRel, prodFn, u), fd.Pos(), "unresolved producer return "+u).Fail("cannot determine the concrete types this return can hold")
	}
	if len(names) == 0 {
		r.Fatal("R-EXH/X3: producer %s.%s yields no concrete types", prodRel, prodFn)
	}
}

func hasTypeSwitchOver(info *types.Info, body ast.Node, it types.Type) bool {
	found := false
	ast.Inspect(body, func(n ast.Node) bool {
		if ts, ok := n.(*ast.TypeSwitchStmt); ok {
			if st := subjectType(info, ts); st != nil && types.Identical(st, it) {
				found = true
			}
		}
		return true
	})
	return found
}
