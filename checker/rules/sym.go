package rules

import (
	"go/ast"
	"go/token"
	"go/types"
	"sort"
	"strings"

	"golang.org/x/tools/go/packages"

	"j5verif/checker/core"
)

// FieldUse records, per generated message type, which of its fields a set of
// functions writes or reads, and which oneof wrapper types ("slots") it
// constructs or inspects.
type FieldUse struct {
	Fields map[string]map[string]token.Pos // "pkg.Msg" -> field -> first position
	Slots  map[string]token.Pos            // "pkg.Msg_Wrapper" -> position
	Const  map[string]bool                 // "pkg.Msg.Field": every write is input-independent
}

func newFieldUse() *FieldUse {
	return &FieldUse{Fields: map[string]map[string]token.Pos{}, Slots: map[string]token.Pos{}, Const: map[string]bool{}}
}

func (u *FieldUse) add(msg, field string, pos token.Pos) {
	if u.Fields[msg] == nil {
		u.Fields[msg] = map[string]token.Pos{}
	}
	if _, ok := u.Fields[msg][field]; !ok {
		u.Fields[msg][field] = pos
	}
}

// msgName returns "pkgname.Type" for a (pointer to a) generated message
// struct, or "" otherwise. Generated messages are recognised by their
// ProtoReflect method.
func msgName(t types.Type) string {
	n := core.NamedOf(t)
	if n == nil || n.Obj().Pkg() == nil {
		return ""
	}
	if _, ok := n.Underlying().(*types.Struct); !ok {
		return ""
	}
	return n.Obj().Pkg().Name() + "." + n.Obj().Name()
}

func isGeneratedMessage(t types.Type) bool {
	n := core.NamedOf(t)
	if n == nil {
		return false
	}
	ms := types.NewMethodSet(types.NewPointer(n))
	return ms.Lookup(n.Obj().Pkg(), "ProtoReflect") != nil
}

// isOneofWrapper: a generated struct with exactly one field carrying a
// protobuf tag with "oneof".
func isOneofWrapper(t types.Type) bool {
	n := core.NamedOf(t)
	if n == nil {
		return false
	}
	st, ok := n.Underlying().(*types.Struct)
	if !ok || st.NumFields() != 1 {
		return false
	}
	return strings.Contains(st.Tag(0), "protobuf:") && strings.Contains(st.Tag(0), "oneof")
}

// inputIndependent: the expression mentions no variable (only constants,
// literals and helper calls on those).
func inputIndependent(info *types.Info, e ast.Expr) bool {
	indep := true
	ast.Inspect(e, func(n ast.Node) bool {
		if id, ok := n.(*ast.Ident); ok {
			if _, isVar := info.Uses[id].(*types.Var); isVar {
				indep = false
			}
		}
		return indep
	})
	return indep
}

// CollectWrites scans the bodies for composite-literal keys and field
// assignments on generated messages.
func CollectWrites(pk *packages.Package, bodies []ast.Node) *FieldUse {
	u := newFieldUse()
	info := pk.TypesInfo
	nonConst := map[string]bool{}
	note := func(msg, field string, val ast.Expr, pos token.Pos) {
		u.add(msg, field, pos)
		if val == nil || !inputIndependent(info, val) {
			nonConst[msg+"."+field] = true
		}
	}
	for _, b := range bodies {
		ast.Inspect(b, func(n ast.Node) bool {
			switch x := n.(type) {
			case *ast.CompositeLit:
				t := info.TypeOf(x)
				if isOneofWrapper(t) {
					u.Slots[msgName(t)] = x.Pos()
					return true
				}
				if !isGeneratedMessage(t) {
					return true
				}
				m := msgName(t)
				for _, e := range x.Elts {
					if kv, ok := e.(*ast.KeyValueExpr); ok {
						if k, ok := kv.Key.(*ast.Ident); ok {
							note(m, k.Name, kv.Value, kv.Pos())
						}
					}
				}
			case *ast.AssignStmt:
				for i, l := range x.Lhs {
					s, ok := l.(*ast.SelectorExpr)
					if !ok {
						continue
					}
					t := info.TypeOf(s.X)
					if !isGeneratedMessage(t) {
						continue
					}
					var val ast.Expr
					if len(x.Rhs) == len(x.Lhs) {
						val = x.Rhs[i]
					}
					note(msgName(t), s.Sel.Name, val, x.Pos())
				}
			}
			return true
		})
	}
	for m, fs := range u.Fields {
		for f := range fs {
			if !nonConst[m+"."+f] {
				u.Const[m+"."+f] = true
			}
		}
	}
	return u
}

// CollectReads scans the bodies for field selections (not on the left of an
// assignment), getter calls, and oneof wrapper inspections (type switch
// cases, type assertions, GetX() getters of oneof members).
func CollectReads(pk *packages.Package, bodies []ast.Node) *FieldUse {
	u := newFieldUse()
	info := pk.TypesInfo
	for _, b := range bodies {
		lhs := map[ast.Expr]bool{}
		ast.Inspect(b, func(n ast.Node) bool {
			if as, ok := n.(*ast.AssignStmt); ok {
				for _, l := range as.Lhs {
					lhs[l] = true
				}
			}
			return true
		})
		ast.Inspect(b, func(n ast.Node) bool {
			switch x := n.(type) {
			case *ast.SelectorExpr:
				if lhs[x] {
					return true
				}
				t := info.TypeOf(x.X)
				if sel, ok := info.Selections[x]; ok && sel.Kind() == types.FieldVal && isGeneratedMessage(t) {
					u.add(msgName(t), x.Sel.Name, x.Pos())
				}
			case *ast.CallExpr:
				s, ok := x.Fun.(*ast.SelectorExpr)
				if !ok || !strings.HasPrefix(s.Sel.Name, "Get") || len(x.Args) != 0 {
					return true
				}
				t := info.TypeOf(s.X)
				if !isGeneratedMessage(t) {
					return true
				}
				field := strings.TrimPrefix(s.Sel.Name, "Get")
				n := core.NamedOf(t)
				// oneof member getter?
				isSlot := false
				for _, wrapper := range []string{n.Obj().Name() + "_" + field, n.Obj().Name() + "_" + field + "_"} {
					if o := n.Obj().Pkg().Scope().Lookup(wrapper); o != nil && isOneofWrapper(o.Type()) {
						u.Slots[n.Obj().Pkg().Name()+"."+wrapper] = x.Pos()
						isSlot = true
					}
				}
				if isSlot {
					return true
				}
				u.add(msgName(t), field, x.Pos())
			case *ast.CaseClause:
				for _, e := range x.List {
					if t := info.TypeOf(e); t != nil && isOneofWrapper(t) {
						u.Slots[msgName(t)] = e.Pos()
					}
				}
			case *ast.TypeAssertExpr:
				if x.Type != nil {
					if t := info.TypeOf(x.Type); t != nil && isOneofWrapper(t) {
						u.Slots[msgName(t)] = x.Pos()
					}
				}
			}
			return true
		})
	}
	return u
}

// FuncBodies returns the bodies of all functions of a package, optionally
// restricted to the given file base names.
func FuncBodies(r *core.Run, rel string, files ...string) (*packages.Package, []ast.Node) {
	pk := r.P.Pkg(rel)
	if pk == nil {
		r.Fatal("anchor: package %s not found", rel)
		return nil, nil
	}
	want := map[string]bool{}
	for _, f := range files {
		want[f] = true
	}
	var out []ast.Node
	seen := map[*ast.FuncDecl]bool{}
	var seeds []*ast.FuncDecl
	for _, f := range pk.Syntax {
		name := r.P.Fset.Position(f.Pos()).Filename
		name = name[strings.LastIndex(name, "/")+1:]
		if len(want) > 0 && !want[name] {
			continue
		}
		for _, d := range f.Decls {
			if fd, ok := d.(*ast.FuncDecl); ok && fd.Body != nil {
				out = append(out, fd.Body)
				seen[fd] = true
				seeds = append(seeds, fd)
			}
		}
	}
	// a function moved to another file of the package is still part of what the named files
	// do as long as something in them calls it: add the same-package callees, transitively
	if len(want) > 0 {
		for i := 0; i < len(seeds); i++ {
			ast.Inspect(seeds[i].Body, func(n ast.Node) bool {
				c, ok := n.(*ast.CallExpr)
				if !ok {
					return true
				}
				fn := core.CalleeFunc(pk.TypesInfo, c)
				if fn == nil || fn.Pkg() != pk.Types {
					return true
				}
				if cd := core.DeclOf(pk, fn.Origin()); cd != nil && cd.Body != nil && !seen[cd] {
					seen[cd] = true
					seeds = append(seeds, cd)
					out = append(out, cd.Body)
				}
				return true
			})
		}
	}
	if len(out) == 0 {
		r.Fatal("anchor: no function bodies found in %s %v", rel, files)
	}
	return pk, out
}

// Coverage arms R-SYM/S1: every field of the message types in scope that the
// writer sets from its input is read by the reader; every oneof slot the
// writer constructs is inspected by the reader.
func Coverage(r *core.Run, rule, label string, w, rd *FieldUse, inScope func(msg string) bool, allow map[string]string) {
	var msgs []string
	for m := range w.Fields {
		if inScope(m) {
			msgs = append(msgs, m)
		}
	}
	sort.Strings(msgs)
	for _, m := range msgs {
		var fs []string
		for f := range w.Fields[m] {
			fs = append(fs, f)
		}
		sort.Strings(fs)
		for _, f := range fs {
			key := m + "." + f
			o := r.Add(rule, label+" | "+key, w.Fields[m][f], "field "+key+" written by the producer")
			switch {
			case rd.Fields[m] != nil && hasKey(rd.Fields[m], f):
				o.Auto("read by the consumer")
			case w.Const[key]:
				o.Auto("written from constants only (regenerated on every production, carries no input)")
			case allow[key] != "":
				o.Status = "table:" + allow[key]
			default:
				o.Fail("the producer sets %s from its input but the consumer never reads it: the value is lost on the way back", key)
			}
		}
	}
	var slots []string
	for s := range w.Slots {
		if inScope(s[:strings.LastIndex(s, "_")]) || inScope(s) {
			slots = append(slots, s)
		}
	}
	sort.Strings(slots)
	for _, s := range slots {
		o := r.Add(rule, label+" | slot "+s, w.Slots[s], "oneof member "+s+" constructed by the producer")
		if _, ok := rd.Slots[s]; ok {
			o.Auto("inspected by the consumer")
		} else if allow[s] != "" {
			o.Status = "table:" + allow[s]
		} else {
			o.Fail("the producer emits the oneof member %s but the consumer never looks at that member: whatever it carries is lost", s)
		}
	}
}

func hasKey(m map[string]token.Pos, k string) bool {
	_, ok := m[k]
	return ok
}
