package rules

import (
	"fmt"
	"go/ast"
	"go/token"
	"go/types"
	"sort"
	"strings"

	"golang.org/x/tools/go/cfg"

	"golang.org/x/tools/go/callgraph"
	"golang.org/x/tools/go/ssa"

	"j5verif/checker/core"
)

// LockDiscipline arms R-LOCK L1–L4.
//
// sharedRoot: the named struct type from which everything shared between
// goroutines is reachable (codec.Codec). Entry points are the methods
// concurrent callers use.
type LockConfig struct {
	SharedRel, SharedType string
	Entries               []Entry
}

type lockCtx struct {
	r        *core.Run
	shared   map[*types.Named]bool    // struct types reachable from the shared root by field types
	lockers  map[*ssa.Function]string // functions that Lock+defer Unlock a mutex field: -> "Type.field"
	regions  map[*ssa.Function]*lockRegion
	unlocked map[*ssa.Function]bool // reachable from entries without passing through a locked region
	locked   map[*ssa.Function]bool // reachable from inside a locked region
	rlocked  map[*ssa.Function]bool // reachable from inside a region that holds the read lock only
	entries  []*ssa.Function
}

// lockRegion: where a locking function takes its mutex. Everything the
// function does before that point runs without the lock.
type lockRegion struct {
	mutex string
	read  bool // RLock / RUnlock
	block *ssa.BasicBlock
	index int
}

// held: the instruction at (b, i) of the locker runs with the mutex held.
func (lr *lockRegion) held(b *ssa.BasicBlock, i int) bool {
	if b == lr.block {
		return i > lr.index
	}
	return lr.block.Dominates(b)
}

func LockDiscipline(r *core.Run, cfg LockConfig) {
	r.Rule("R-LOCK/L1", "every map read/write/range/delete on a map-typed field of a type reachable from the shared root, and every store to a field of such a type that is not a freshly allocated object, happens only in functions that are reachable from the entry points exclusively through a locked region (a function that calls mu.Lock() in its entry block and defers mu.Unlock())")
	r.Rule("R-LOCK/L2", "functions reachable from the entry points outside any locked region contain no store into (and no map update on a field of) an object of a shared type unless the object was allocated in the same function")
	r.Rule("R-LOCK/L3", "no function on the concurrent paths writes a package-level variable of the module or updates a package-level map")
	r.Rule("R-LOCK/L4", "no call path from inside a locked region reaches a function that locks the same mutex again (sync.Mutex is not re-entrant); exactly one mutex is involved, so there is no lock-order question")
	r.P.BuildSSA()
	r.Rule("R-LOCK/L5", "every insertion into a shared map on the concurrent paths is dominated, in the same function (or at every call site of the inserting helper), by a lookup of the same map that runs with the write lock held: probe and insertion of a memo are one critical section, a probe made under another acquisition of the lock says nothing once the lock was released")
	c := &lockCtx{r: r, shared: map[*types.Named]bool{}, lockers: map[*ssa.Function]string{}, regions: map[*ssa.Function]*lockRegion{}}
	root := r.P.LookupType(core.Module+"/"+cfg.SharedRel, cfg.SharedType)
	if root == nil {
		r.Fatal("anchor: %s.%s not found", cfg.SharedRel, cfg.SharedType)
		return
	}
	c.collectShared(root)
	for _, e := range cfg.Entries {
		f := r.P.SSAFunc(e.Rel, e.Name)
		if f == nil {
			r.Fatal("anchor: entry point %s.%s does not resolve", e.Rel, e.Name)
			continue
		}
		c.entries = append(c.entries, f)
		r.Entry = append(r.Entry, e.Rel+"."+e.Name)
	}
	g := r.P.VTA()
	all := core.Reachable(g, c.entries, core.FollowSource)
	for f := range all {
		if lr := lockerOf(f); lr != nil {
			c.lockers[f] = lr.mutex
			c.regions[f] = lr
		}
	}
	// unlocked reach: a locking function is entered, of its callees only those called before the lock is taken are followed
	c.unlocked = reachCut(g, c.entries, c.regions)
	var wList, rList []*ssa.Function
	for f, lr := range c.regions {
		if lr.read {
			rList = append(rList, heldCallees(g, f, lr)...)
		} else {
			wList = append(wList, heldCallees(g, f, lr)...)
		}
	}
	c.locked = core.Reachable(g, append(append([]*ssa.Function{}, wList...), rList...), core.FollowSource)
	c.rlocked = core.Reachable(g, rList, core.FollowSource)
	r.Analysed["shared_types"] = len(c.shared)
	r.Analysed["reachable_functions"] = len(all)
	r.Analysed["functions_outside_locked_regions"] = len(c.unlocked)
	r.Analysed["functions_inside_locked_regions"] = len(c.locked)
	var names []string
	for f, m := range c.lockers {
		if c.regions[f].read {
			names = append(names, core.FuncKey(f)+" read-locks "+m)
		} else {
			names = append(names, core.FuncKey(f)+" locks "+m)
		}
	}
	sort.Strings(names)
	r.Note("locking functions: %s", strings.Join(names, "; "))
	var st []string
	for t := range c.shared {
		st = append(st, core.TypeStr(t))
	}
	sort.Strings(st)
	r.Note("shared types (reachable from %s by field types): %s", cfg.SharedType, strings.Join(st, ", "))

	// L4
	mutexes := map[string]bool{}
	for _, m := range c.lockers {
		mutexes[m] = true
	}
	o := r.Add("R-LOCK/L4", "mutex count", token.NoPos, "mutexes on the concurrent paths")
	switch len(mutexes) {
	case 0:
		o.Fail("no locking function found on the concurrent paths: the shared cache is unguarded")
	case 1:
		o.Auto("exactly one: %s", strings.Join(names, "; "))
	default:
		o.Fail("%d different mutexes are taken on these paths; lock order is not analysed", len(mutexes))
	}
	for f := range c.lockers {
		// re-entry: is any locker reachable from the callees of f?
		inner := core.Reachable(g, heldCallees(g, f, c.regions[f]), core.FollowSource)
		o := r.Add("R-LOCK/L4", "re-entry | "+core.FuncKey(f), f.Pos(), "re-entrancy of "+core.FuncKey(f))
		bad := ""
		for l, m := range c.lockers {
			if inner[l] && m == c.lockers[f] {
				bad = core.FuncKey(l)
			}
		}
		if bad == "" {
			o.Auto("no function that takes the same mutex (for reading or writing) is reachable from inside the locked region")
		} else {
			o.Fail("%s is reachable while the mutex is held: self-deadlock", bad)
		}
	}

	// L1–L3 over all reachable functions
	for _, f := range core.SortedFuncs(all) {
		if f.Blocks == nil || !core.IsSource(core.FuncPkgPath(f)) {
			continue
		}
		if strings.HasSuffix(r.P.Fset.Position(f.Pos()).Filename, ".pb.go") {
			continue
		}
		c.scan(f)
	}
	r.Floor("R-LOCK/L1", 4, "map accesses on SchemaCache.packages and Package.Schemas, stores to RefSchema.To")
}

// collectShared walks field types from the root.
func (c *lockCtx) collectShared(root *types.Named) {
	var visit func(t types.Type)
	seen := map[types.Type]bool{}
	visit = func(t types.Type) {
		if t == nil || seen[t] {
			return
		}
		seen[t] = true
		switch x := t.(type) {
		case *types.Pointer:
			visit(x.Elem())
		case *types.Slice:
			visit(x.Elem())
		case *types.Array:
			visit(x.Elem())
		case *types.Map:
			visit(x.Key())
			visit(x.Elem())
		case *types.Alias:
			visit(types.Unalias(x))
		case *types.Named:
			if x.Obj().Pkg() == nil || !core.IsSource(x.Obj().Pkg().Path()) {
				return
			}
			switch u := x.Underlying().(type) {
			case *types.Struct:
				c.shared[x] = true
				for i := 0; i < u.NumFields(); i++ {
					visit(u.Field(i).Type())
				}
			case *types.Interface:
				// module implementations of a module interface
				for path, pk := range c.r.P.ByPkg {
					if !core.IsSource(path) || pk.Types == nil {
						continue
					}
					for _, impl := range core.Implementers(pk.Types, u) {
						visit(impl)
					}
				}
			default:
				visit(u)
			}
		}
	}
	visit(root)
}

// lockerOf: the function locks a sync.(RW)Mutex field — for writing or for
// reading — and defers the matching unlock before it does anything else with
// the lock held; returns the region. The lock need not be the first thing the
// function does: what precedes it runs unlocked and is treated so.
func lockerOf(f *ssa.Function) *lockRegion {
	for _, b := range f.Blocks {
		for i, in := range b.Instrs {
			x, ok := in.(*ssa.Call)
			if !ok {
				continue
			}
			callee := x.Call.StaticCallee()
			if callee == nil {
				continue
			}
			var read bool
			switch callee.String() {
			case "(*sync.Mutex).Lock", "(*sync.RWMutex).Lock":
			case "(*sync.RWMutex).RLock":
				read = true
			default:
				continue
			}
			fa, ok := x.Call.Args[0].(*ssa.FieldAddr)
			if !ok {
				continue
			}
			st := fa.X.Type().Underlying().(*types.Pointer).Elem()
			name := core.TypeStr(st) + "." + st.Underlying().(*types.Struct).Field(fa.Field).Name()
			// the deferred unlock follows before any other call
			for _, nx := range b.Instrs[i+1:] {
				if d, ok := nx.(*ssa.Defer); ok {
					if dc := d.Call.StaticCallee(); dc != nil {
						want := map[bool][]string{false: {"(*sync.Mutex).Unlock", "(*sync.RWMutex).Unlock"}, true: {"(*sync.RWMutex).RUnlock"}}[read]
						for _, w := range want {
							if dc.String() == w {
								return &lockRegion{mutex: name, read: read, block: b, index: i}
							}
						}
					}
					break
				}
				if _, isCall := nx.(*ssa.Call); isCall {
					break
				}
			}
		}
	}
	return nil
}

// heldCallees: module functions called (and closures made) by a locker with the mutex held.
func heldCallees(g *callgraph.Graph, f *ssa.Function, lr *lockRegion) []*ssa.Function {
	return regionCallees(g, f, lr, true)
}

func regionCallees(g *callgraph.Graph, f *ssa.Function, lr *lockRegion, held bool) []*ssa.Function {
	var out []*ssa.Function
	where := func(in ssa.Instruction) bool {
		b := in.Block()
		if b == nil {
			return held
		}
		for i, x := range b.Instrs {
			if x == in {
				return lr.held(b, i) == held
			}
		}
		return held
	}
	if n := g.Nodes[f]; n != nil {
		for _, e := range n.Out {
			if e.Callee.Func == nil || !core.IsSource(core.FuncPkgPath(e.Callee.Func)) {
				continue
			}
			if e.Site == nil || where(e.Site) {
				out = append(out, e.Callee.Func)
			}
		}
	}
	for _, a := range f.AnonFuncs {
		// a closure belongs to the part of the function that creates it
		made := false
		for _, b := range f.Blocks {
			for i, in := range b.Instrs {
				if mc, ok := in.(*ssa.MakeClosure); ok && mc.Fn == a {
					made = true
					if lr.held(b, i) == held {
						out = append(out, a)
					}
				}
			}
		}
		if !made && held {
			out = append(out, a)
		}
	}
	return out
}

func calleesOf(g *callgraph.Graph, f *ssa.Function) []*ssa.Function {
	var out []*ssa.Function
	if n := g.Nodes[f]; n != nil {
		for _, e := range n.Out {
			if e.Callee.Func != nil && core.IsSource(core.FuncPkgPath(e.Callee.Func)) {
				out = append(out, e.Callee.Func)
			}
		}
	}
	out = append(out, f.AnonFuncs...)
	return out
}

// reachCut: reachable set from the entries where locking functions are
// included and expanded only through what they call before they take the lock.
func reachCut(g *callgraph.Graph, entries []*ssa.Function, regions map[*ssa.Function]*lockRegion) map[*ssa.Function]bool {
	seen := map[*ssa.Function]bool{}
	var stack []*ssa.Function
	for _, e := range entries {
		if !seen[e] {
			seen[e] = true
			stack = append(stack, e)
		}
	}
	for len(stack) > 0 {
		f := stack[len(stack)-1]
		stack = stack[:len(stack)-1]
		var next []*ssa.Function
		if lr, isLocker := regions[f]; isLocker {
			next = regionCallees(g, f, lr, false)
		} else {
			next = calleesOf(g, f)
		}
		for _, c := range next {
			if !seen[c] {
				seen[c] = true
				stack = append(stack, c)
			}
		}
	}
	return seen
}

// fieldOf: v is (a load of) a field of a struct of a shared type; returns
// "Type.field".
func (c *lockCtx) fieldOf(v ssa.Value) (string, bool) {
	switch x := v.(type) {
	case *ssa.UnOp:
		if x.Op == token.MUL {
			return c.fieldOf(x.X)
		}
	case *ssa.FieldAddr:
		pt, ok := x.X.Type().Underlying().(*types.Pointer)
		if !ok {
			return "", false
		}
		n := core.NamedOf(pt.Elem())
		if n != nil && c.shared[n] {
			return core.TypeStr(n) + "." + n.Underlying().(*types.Struct).Field(x.Field).Name(), true
		}
	case *ssa.Field:
		n := core.NamedOf(x.X.Type())
		if n != nil && c.shared[n] {
			return core.TypeStr(n) + "." + n.Underlying().(*types.Struct).Field(x.Field).Name(), true
		}
	}
	return "", false
}

func isFresh(v ssa.Value) bool {
	switch x := v.(type) {
	case *ssa.Alloc:
		return true
	case *ssa.FieldAddr:
		return isFresh(x.X)
	case *ssa.IndexAddr:
		return isFresh(x.X)
	case *ssa.MakeMap, *ssa.MakeSlice:
		return true
	}
	return false
}

func (c *lockCtx) scan(f *ssa.Function) {
	r := c.r
	fk := core.FuncKey(f)
	lr := c.regions[f]
	var curB *ssa.BasicBlock
	curI := 0
	// state of the current instruction: without the lock, with the read lock only, or with the write lock
	unlockedHere := func() bool {
		if lr != nil && lr.held(curB, curI) {
			return false
		}
		return c.unlocked[f]
	}
	readOnlyHere := func() bool {
		if lr != nil && lr.held(curB, curI) {
			return lr.read
		}
		return c.rlocked[f]
	}
	inUnlocked := c.unlocked[f]
	report := func(rule, what string, pos token.Pos, desc string, critical bool) {
		o := r.Add(rule, fk+" | "+what, pos, desc)
		isWrite := !strings.HasPrefix(desc, "read") && !strings.HasPrefix(desc, "iteration")
		if !unlockedHere() {
			if isWrite && readOnlyHere() && !strings.HasPrefix(desc, "atomic update") {
				o.Fail("%s with only the read lock held: readers run concurrently with each other, a write among them is a data race", desc)
				return
			}
			if lr != nil {
				o.Auto("runs after the function has taken the lock")
			} else {
				o.Auto("function is reachable from the entry points only through a locked region")
			}
			return
		}
		if strings.HasPrefix(desc, "atomic update") {
			o.Fail("%s in a function reachable from the concurrent entry points: no data race, but the value is state that one call leaves behind for all others on the shared object — a call's result then depends on what else is in flight", desc)
			return
		}
		o.Fail("%s in a function reachable from the concurrent entry points without the lock held: data race on state shared by all users of the codec", desc)
	}
	for _, b := range f.Blocks {
		for ii, in := range b.Instrs {
			curB, curI = b, ii
			switch x := in.(type) {
			case *ssa.MapUpdate:
				if fld, ok := c.fieldOf(x.Map); ok {
					report("R-LOCK/L1", "map write "+fld, x.Pos(), "write to shared map "+fld, true)
					c.probeBeforeInsert(f, b, ii, x, fld)
				} else if g := globalOf(x.Map); g != "" {
					r.Add("R-LOCK/L3", fk+" | map write "+g, x.Pos(), "update of package-level map "+g).Fail("package-level state is shared by every goroutine")
				}
			case *ssa.Lookup:
				if _, isMap := x.X.Type().Underlying().(*types.Map); isMap {
					if fld, ok := c.fieldOf(x.X); ok {
						report("R-LOCK/L1", "map read "+fld, x.Pos(), "read of shared map "+fld, true)
					}
				}
			case *ssa.Range:
				if _, isMap := x.X.Type().Underlying().(*types.Map); isMap {
					if fld, ok := c.fieldOf(x.X); ok {
						report("R-LOCK/L1", "map range "+fld, x.Pos(), "iteration over shared map "+fld, true)
					}
				}
			case *ssa.Call:
				if bi, ok := x.Call.Value.(*ssa.Builtin); ok && bi.Name() == "delete" {
					if fld, ok := c.fieldOf(x.Call.Args[0]); ok {
						report("R-LOCK/L1", "map delete "+fld, x.Pos(), "delete from shared map "+fld, true)
					}
				}
				// an atomic read-modify-write is no data race, but it is still state that one call
				// leaves behind for every other call on the shared object
				if callee := x.Call.StaticCallee(); callee != nil && callee.Pkg != nil && callee.Pkg.Pkg.Path() == "sync/atomic" && len(x.Call.Args) > 0 {
					switch callee.Name() {
					case "Add", "Store", "Swap", "CompareAndSwap", "And", "Or",
						"AddInt32", "AddInt64", "AddUint32", "AddUint64", "AddUintptr", "StoreInt32", "StoreInt64", "StoreUint32", "StoreUint64", "StorePointer", "StoreUintptr",
						"SwapInt32", "SwapInt64", "SwapUint32", "SwapUint64", "SwapPointer", "CompareAndSwapInt32", "CompareAndSwapInt64", "CompareAndSwapUint32", "CompareAndSwapUint64", "CompareAndSwapPointer":
						if fld, ok := c.fieldOf(x.Call.Args[0]); ok {
							if fa, isFA := x.Call.Args[0].(*ssa.FieldAddr); !isFA || !isFresh(fa.X) {
								report("R-LOCK/L2", "atomic "+callee.Name()+" "+fld, x.Pos(), "atomic update ("+callee.Name()+") of "+fld+" of an object not allocated in this function", false)
							}
						}
					}
				}
			case *ssa.Store:
				if g, ok := x.Addr.(*ssa.Global); ok && g.Pkg != nil && core.IsSource(g.Pkg.Pkg.Path()) {
					if f.Name() == "init" || strings.HasPrefix(f.Name(), "init#") {
						continue
					}
					r.Add("R-LOCK/L3", fk+" | write "+g.Name(), x.Pos(), "write to package-level variable "+g.Name()).Fail("package-level state is shared by every goroutine")
					continue
				}
				fa, ok := x.Addr.(*ssa.FieldAddr)
				if !ok {
					continue
				}
				fld, ok := c.fieldOf(fa)
				if !ok || isFresh(fa.X) {
					continue
				}
				rule := "R-LOCK/L2"
				if strings.HasSuffix(fld, "RefSchema.To") || !inUnlocked {
					rule = "R-LOCK/L1"
				}
				report(rule, "store "+fld, x.Pos(), "store to "+fld+" of an object not allocated in this function", false)
			}
		}
	}
}

func globalOf(v ssa.Value) string {
	switch x := v.(type) {
	case *ssa.UnOp:
		if x.Op == token.MUL {
			return globalOf(x.X)
		}
	case *ssa.Global:
		if x.Pkg != nil && core.IsSource(x.Pkg.Pkg.Path()) {
			return x.Name()
		}
	}
	return ""
}

// probeBeforeInsert (L5): the insertion M[k] = v at (b, i) of f is dominated by a lookup of
// the same shared map field in f that runs with the write lock held — or, when f only inserts,
// every call of f is dominated by one in its caller.
func (c *lockCtx) probeBeforeInsert(f *ssa.Function, b *ssa.BasicBlock, i int, up *ssa.MapUpdate, fld string) {
	r := c.r
	o := r.Add("R-LOCK/L5", core.FuncKey(f)+" | insert "+fld, up.Pos(), "insertion into shared map "+fld)
	// dominated(g, blk, idx): a lookup of fld in g dominates (blk, idx) and is not made before g takes its lock or under a read lock
	dominated := func(g *ssa.Function, blk *ssa.BasicBlock, idx int) bool {
		glr := c.regions[g]
		for _, pb := range g.Blocks {
			for pi, in := range pb.Instrs {
				lk, ok := in.(*ssa.Lookup)
				if !ok {
					continue
				}
				if _, isMap := lk.X.Type().Underlying().(*types.Map); !isMap {
					continue
				}
				if pf, ok := c.fieldOf(lk.X); !ok || pf != fld {
					continue
				}
				if !(pb == blk && pi < idx) && !(pb != blk && pb.Dominates(blk)) {
					continue
				}
				if glr != nil && (!glr.held(pb, pi) || glr.read) {
					continue
				}
				return true
			}
		}
		return false
	}
	if dominated(f, b, i) {
		o.Auto("a lookup of the same map dominates the insertion in this function")
		return
	}
	// one level of callers
	g := r.P.VTA()
	n := g.Nodes[f]
	sites := 0
	if n != nil {
		for _, e := range n.In {
			caller := e.Caller.Func
			if caller == nil || e.Site == nil || !(c.locked[caller] || c.unlocked[caller]) {
				continue
			}
			sites++
			sb := e.Site.Block()
			si := -1
			for k, in := range sb.Instrs {
				if in == e.Site {
					si = k
				}
			}
			if !dominated(caller, sb, si) {
				o.Fail("no lookup of %s precedes the insertion under the same acquisition of the lock (neither in this function nor before the call in %s): two callers that both miss insert twice, the second build overwrites what the first registered", fld, core.FuncKey(caller))
				return
			}
		}
	}
	if sites == 0 {
		o.Fail("no lookup of %s precedes the insertion under the same acquisition of the lock: two callers that both miss insert twice, the second build overwrites what the first registered", fld)
		return
	}
	o.Auto("every call of this function is dominated by a lookup of the same map in its caller")
}

var _ = fmt.Sprintf

// LockPairing (R-LOCK/L6): every acquisition of a mutex is released on every
// way out of the function. The repository's idiom is `mu.Lock(); defer
// mu.Unlock()`. Where a function unlocks by hand, go/cfg is searched for a
// path from the Lock to the function's exit that passes no Unlock of the same
// mutex: a return on a failure path that forgets the unlock leaves the mutex
// locked for ever, and every later call that needs it — every later decode on
// the same codec — blocks.
func LockPairing(r *core.Run, rels []string) {
	r.Rule("R-LOCK/L6", "in the packages in scope every call of Lock / RLock on a sync.Mutex or sync.RWMutex is followed directly by a deferred Unlock / RUnlock of the same mutex, or every go/cfg path from the call to an exit of the function passes such an unlock: no return leaves the mutex held")
	n := 0
	for _, rel := range rels {
		pk := r.P.Pkg(rel)
		if pk == nil {
			r.Fatal("anchor: package %s not found", rel)
			continue
		}
		info := pk.TypesInfo
		core.AllFuncDecls(pk, func(fd *ast.FuncDecl) {
			if fd.Body == nil {
				return
			}
			lockKind := func(c *ast.CallExpr) (mutex string, unlock string, ok bool) {
				switch core.CalleeName(info, c) {
				case "(*sync.Mutex).Lock", "(*sync.RWMutex).Lock":
					unlock = "Unlock"
				case "(*sync.RWMutex).RLock":
					unlock = "RUnlock"
				default:
					return "", "", false
				}
				sel, isSel := c.Fun.(*ast.SelectorExpr)
				if !isSel {
					return "", "", false
				}
				return core.NormExpr(info, sel.X), unlock, true
			}
			isUnlock := func(n ast.Node, mutex, unlock string) bool {
				found := false
				ast.Inspect(n, func(m ast.Node) bool {
					if _, isLit := m.(*ast.FuncLit); isLit {
						return false
					}
					c, ok := m.(*ast.CallExpr)
					if !ok {
						return true
					}
					sel, isSel := c.Fun.(*ast.SelectorExpr)
					if isSel && sel.Sel.Name == unlock && core.NormExpr(info, sel.X) == mutex && strings.HasPrefix(core.CalleeName(info, c), "(*sync.") {
						found = true
					}
					return true
				})
				return found
			}
			var locks []*ast.CallExpr
			ast.Inspect(fd.Body, func(m ast.Node) bool {
				if _, isLit := m.(*ast.FuncLit); isLit {
					return false
				}
				if es, ok := m.(*ast.ExprStmt); ok {
					if c, ok := es.X.(*ast.CallExpr); ok {
						if _, _, isLock := lockKind(c); isLock {
							locks = append(locks, c)
						}
					}
				}
				return true
			})
			if len(locks) == 0 {
				return
			}
			g := cfg.New(fd.Body, func(*ast.CallExpr) bool { return true })
			for _, lc := range locks {
				mutex, unlock, _ := lockKind(lc)
				n++
				o := r.Add("R-LOCK/L6", rel+"."+core.FuncName(fd)+" | "+mutex+"."+strings.TrimSuffix(unlock, "Unlock")+"Lock released on every exit", lc.Pos(), "release of "+mutex)
				// locate the lock in the cfg
				var start *cfg.Block
				startIdx := -1
				for _, b := range g.Blocks {
					for i, nd := range b.Nodes {
						if nd.Pos() <= lc.Pos() && lc.End() <= nd.End() {
							if _, isDefer := nd.(*ast.DeferStmt); !isDefer {
								start, startIdx = b, i
							}
						}
					}
				}
				if start == nil {
					o.Fail("the Lock call was not found in the control-flow graph")
					continue
				}
				// deferred unlock registered right after
				deferred := false
				if startIdx+1 < len(start.Nodes) {
					if ds, ok := start.Nodes[startIdx+1].(*ast.DeferStmt); ok && isUnlock(ds.Call, mutex, unlock) {
						deferred = true
					}
				}
				if deferred {
					o.Auto("released by the defer that follows the Lock")
					continue
				}
				// path search: reach an exit without passing an unlock (plain or deferred)
				var leak ast.Node
				seen := map[*cfg.Block]bool{}
				var walk func(b *cfg.Block, from int)
				walk = func(b *cfg.Block, from int) {
					if leak != nil {
						return
					}
					for i := from; i < len(b.Nodes); i++ {
						nd := b.Nodes[i]
						if isUnlock(nd, mutex, unlock) {
							return
						}
						if ret, ok := nd.(*ast.ReturnStmt); ok {
							leak = ret
							return
						}
					}
					if len(b.Succs) == 0 {
						// the end of the function (or a panic) without an unlock
						if len(b.Nodes) > 0 {
							last := b.Nodes[len(b.Nodes)-1]
							if es, ok := last.(*ast.ExprStmt); ok {
								if c, ok := es.X.(*ast.CallExpr); ok {
									if id, ok := c.Fun.(*ast.Ident); ok && id.Name == "panic" {
										return
									}
								}
							}
							leak = last
						} else {
							leak = fd.Body
						}
						return
					}
					for _, s := range b.Succs {
						if !seen[s] {
							seen[s] = true
							walk(s, 0)
						}
					}
				}
				walk(start, startIdx+1)
				if leak != nil {
					o.Pos = r.P.Rel(leak.Pos())
					o.Fail("a path from the %s of %s reaches this exit without releasing it: the mutex stays locked and every later call that needs it blocks for ever", strings.TrimSuffix(unlock, "Unlock")+"Lock", mutex)
				} else {
					o.Auto("every path to an exit passes %s", unlock)
				}
			}
		})
	}
	r.Analysed["lock_acquisitions"] = n
}
