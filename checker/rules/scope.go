package rules

import (
	"bufio"
	"bytes"
	"fmt"
	"go/ast"
	"go/token"
	"go/types"
	"os"
	"os/exec"
	"path/filepath"
	"sort"
	"strconv"
	"strings"

	"golang.org/x/tools/go/packages"
	"golang.org/x/tools/go/ssa"

	"j5verif/checker/core"
)

// ScopeFunc is one reachable hand-written function with its syntax.
type ScopeFunc struct {
	SSA  *ssa.Function
	Name string // stable, line-free (pkg-relative)
	Pkg  *packages.Package
	Node ast.Node // *ast.FuncDecl or *ast.FuncLit
	Body *ast.BlockStmt
	Type *ast.FuncType
}

// Scope is the set of module functions reachable from a property's entry
// points in the VTA call graph (seeded with CHA).
type Scope struct {
	R     *core.Run
	Funcs []*ScopeFunc
	Set   map[*ssa.Function]bool
	byPkg map[string]bool
}

// Entry names an entry point: module-relative package and Func / Recv.Method.
type Entry struct{ Rel, Name string }

func E(rel, name string) Entry { return Entry{rel, name} }

// NewScope resolves the entries (an unresolved entry is a check failure) and
// computes the reachable set.
func NewScope(r *core.Run, entries []Entry, extraRoots ...*ssa.Function) *Scope {
	r.P.BuildSSA()
	var roots []*ssa.Function
	for _, e := range entries {
		f := r.P.SSAFunc(e.Rel, e.Name)
		if f == nil {
			r.Fatal("anchor: entry point %s.%s does not resolve", e.Rel, e.Name)
			continue
		}
		roots = append(roots, f)
		r.Entry = append(r.Entry, e.Rel+"."+e.Name)
	}
	roots = append(roots, extraRoots...)
	g := r.P.VTA()
	set := core.Reachable(g, roots, core.FollowSource)
	sc := &Scope{R: r, Set: set, byPkg: map[string]bool{}}
	for _, f := range core.SortedFuncs(set) {
		syn := f.Syntax()
		if syn == nil {
			continue // synthetic wrapper
		}
		pkgPath := core.FuncPkgPath(f)
		if !core.IsSource(pkgPath) {
			continue
		}
		pk := r.P.ByPkg[pkgPath]
		if pk == nil {
			continue
		}
		if strings.HasSuffix(r.P.Fset.Position(syn.Pos()).Filename, ".pb.go") {
			continue // protoc-gen-go output: trusted generated code
		}
		sf := &ScopeFunc{SSA: f, Name: core.FuncKey(f), Pkg: pk, Node: syn}
		switch n := syn.(type) {
		case *ast.FuncDecl:
			sf.Body, sf.Type = n.Body, n.Type
		case *ast.FuncLit:
			sf.Body, sf.Type = n.Body, n.Type
		}
		if sf.Body == nil {
			continue
		}
		// instantiations share syntax with their origin: keep one
		dup := false
		for _, o := range sc.Funcs {
			if o.Node == sf.Node {
				dup = true
			}
		}
		if dup {
			continue
		}
		sc.Funcs = append(sc.Funcs, sf)
		sc.byPkg[pkgPath] = true
	}
	r.Analysed["reachable_functions"] = len(sc.Funcs)
	return sc
}

// Packages returns the import paths of packages with reachable functions.
func (s *Scope) Packages() []string {
	var out []string
	for p := range s.byPkg {
		out = append(out, p)
	}
	sort.Strings(out)
	return out
}

// InspectOwn visits the nodes of the function body without descending into
// nested function literals (they are separate scope functions).
func (f *ScopeFunc) InspectOwn(fn func(ast.Node) bool) {
	ast.Inspect(f.Body, func(n ast.Node) bool {
		if n == nil {
			return true
		}
		if fl, ok := n.(*ast.FuncLit); ok && ast.Node(fl) != f.Node {
			return false
		}
		return fn(n)
	})
}

// ---------- compiler prove pass (bounds-check elimination) ----------

type bcePos struct {
	file string
	line int
	col  int
}

// BCE holds the bounds checks the Go compiler could not eliminate.
type BCE struct {
	sites map[bcePos]string
	n     int
}

// RunBCE builds the given packages of the repo with
// -gcflags='-l -d=ssa/check_bce/debug=1' and parses the report. Unchanged
// packages replay their diagnostics from the build cache.
func RunBCE(r *core.Run, pkgPaths []string) *BCE {
	b := &BCE{sites: map[bcePos]string{}}
	if len(pkgPaths) == 0 {
		return b
	}
	args := append([]string{"build", "-gcflags=-l -d=ssa/check_bce/debug=1"}, pkgPaths...)
	cmd := exec.Command("go", args...)
	cmd.Dir = r.P.Repo
	env := []string{}
	for _, e := range os.Environ() {
		k := strings.SplitN(e, "=", 2)[0]
		switch k {
		case "GOWORK", "GOTOOLCHAIN", "GOSUMDB", "GOFLAGS", "GOPROXY", "GOARCH", "GOOS":
			continue
		}
		env = append(env, e)
	}
	cmd.Env = append(env, "GOWORK=off", "GOFLAGS=-mod=mod", "GOPROXY=off")
	var out bytes.Buffer
	cmd.Stdout = &out
	cmd.Stderr = &out
	err := cmd.Run()
	sc := bufio.NewScanner(&out)
	sc.Buffer(make([]byte, 1<<20), 1<<24)
	nlines := 0
	for sc.Scan() {
		line := sc.Text()
		nlines++
		if strings.HasPrefix(line, "#") {
			continue
		}
		i := strings.Index(line, ": Found ")
		if i < 0 {
			if err != nil {
				r.Note("bce build output: %s", line)
			}
			continue
		}
		parts := strings.Split(line[:i], ":")
		if len(parts) < 3 {
			continue
		}
		ln, _ := strconv.Atoi(parts[len(parts)-2])
		col, _ := strconv.Atoi(parts[len(parts)-1])
		file := strings.Join(parts[:len(parts)-2], ":")
		if !filepath.IsAbs(file) {
			file = filepath.Join(r.P.Repo, file)
		}
		b.sites[bcePos{file, ln, col}] = strings.TrimSpace(line[i+2:])
		b.n++
	}
	if err != nil {
		r.Fatal("compiler prove pass failed (go build -gcflags=-d=ssa/check_bce): %v", err)
	}
	r.Analysed["bce_unproven_reports_in_scope_packages"] = b.n
	return b
}

// Unproven reports whether the compiler kept a bounds check at the `[`.
func (b *BCE) Unproven(fset *token.FileSet, lbrack token.Pos) bool {
	p := fset.Position(lbrack)
	_, ok := b.sites[bcePos{p.Filename, p.Line, p.Column}]
	return ok
}

// siteKey builds a structural key for a construct inside a function. Local
// variable names (parameters, receivers, locals, range and closure variables)
// are replaced by their types, so that renaming a local does not turn a
// discharged construct into a new one: `ps.items[0]` is keyed as
// `‹*popSet›.items[0]`.
func siteKey(f *ScopeFunc, what string) string {
	if os.Getenv("J5CHECK_OLDKEYS") != "" {
		return fmt.Sprintf("%s | %s", f.Name, what)
	}
	k := fmt.Sprintf("%s | %s", f.Name, normLocals(f, what))
	if os.Getenv("J5CHECK_KEYMAP") != "" {
		os.Setenv("J5CHECK_OLDNORM", "1")
		oldk := fmt.Sprintf("%s | %s", f.Name, normLocals(f, what))
		os.Unsetenv("J5CHECK_OLDNORM")
		if oldk != k {
			fmt.Fprintf(os.Stderr, "KEYMAP\t%s\t%s\n", oldk, k)
		}
	}
	return k
}

var localNamesCache = map[*ScopeFunc]map[string]string{}

// localNames maps the names of the function's local variables (including those
// of the function that encloses a closure) to a short type string; a name
// bound to values of different types maps to "var".
func localNames(f *ScopeFunc) map[string]string {
	if m, ok := localNamesCache[f]; ok {
		return m
	}
	m := map[string]string{}
	info := f.Pkg.TypesInfo
	root := f.Node
	if _, isLit := root.(*ast.FuncLit); isLit {
		if fd := core.EnclosingFunc(f.Pkg, root.Pos()); fd != nil {
			root = fd
		}
	}
	pkgScope := f.Pkg.Types.Scope()
	ast.Inspect(root, func(n ast.Node) bool {
		id, ok := n.(*ast.Ident)
		if !ok || id.Name == "_" {
			return true
		}
		obj := info.Defs[id]
		if obj == nil {
			return true
		}
		v, isVar := obj.(*types.Var)
		if !isVar || v.IsField() || v.Parent() == pkgScope {
			return true
		}
		t := shortType(v.Type())
		if prev, seen := m[id.Name]; seen && prev != t {
			m[id.Name] = "var"
		} else {
			m[id.Name] = t
		}
		return true
	})
	// implicit objects of type switches
	ast.Inspect(root, func(n ast.Node) bool {
		if cc, ok := n.(*ast.CaseClause); ok {
			if obj := info.Implicits[cc]; obj != nil {
				t := shortType(obj.Type())
				if prev, seen := m[obj.Name()]; seen && prev != t {
					m[obj.Name()] = "var"
				} else {
					m[obj.Name()] = t
				}
			}
		}
		return true
	})
	localNamesCache[f] = m
	return m
}

func shortType(t types.Type) string {
	s := types.TypeString(t, func(p *types.Package) string { return "" })
	if len(s) > 40 {
		s = s[:40] + "…"
	}
	return s
}

// normLocals rewrites identifier tokens of `what` that name locals of f (and
// are not selected fields: not preceded by '.') to ‹type›.
func normLocals(f *ScopeFunc, what string) string {
	names := localNames(f)
	if len(names) == 0 {
		return what
	}
	var b strings.Builder
	i := 0
	skipStrings := os.Getenv("J5CHECK_OLDNORM") == ""
	for i < len(what) {
		c := what[i]
		// string and character literals are text, not code: a word in an error message that
		// happens to be the name of a local is left alone
		if skipStrings && (c == '"' || c == '`' || c == '\'') {
			j := i + 1
			for j < len(what) && what[j] != c {
				if what[j] == '\\' && c != '`' {
					j++
				}
				j++
			}
			if j < len(what) {
				j++
			} else {
				j = len(what) // cut-off literal (keys truncate long texts): the rest is text
			}
			b.WriteString(what[i:j])
			i = j
			continue
		}
		// a type already written in ‹…› (by core.NormExpr) is left alone
		if strings.HasPrefix(what[i:], "‹") {
			depth, j := 0, i
			for j < len(what) {
				if strings.HasPrefix(what[j:], "‹") {
					depth++
					j += len("‹")
					continue
				}
				if strings.HasPrefix(what[j:], "›") {
					depth--
					j += len("›")
					if depth == 0 {
						break
					}
					continue
				}
				j++
			}
			b.WriteString(what[i:j])
			i = j
			continue
		}
		if c == '_' || c >= 'a' && c <= 'z' || c >= 'A' && c <= 'Z' {
			j := i
			for j < len(what) && (what[j] == '_' || what[j] >= 'a' && what[j] <= 'z' || what[j] >= 'A' && what[j] <= 'Z' || what[j] >= '0' && what[j] <= '9') {
				j++
			}
			tok := what[i:j]
			if t, ok := names[tok]; ok && (i == 0 || what[i-1] != '.') && !(j < len(what) && what[j] == '(' && false) {
				b.WriteString("‹" + t + "›")
			} else {
				b.WriteString(tok)
			}
			i = j
			continue
		}
		b.WriteByte(c)
		i++
	}
	return b.String()
}

// indexable: slice, string, array or pointer to array (not map, not type params).
func indexable(t types.Type) bool {
	if t == nil {
		return false
	}
	switch u := t.Underlying().(type) {
	case *types.Slice, *types.Array:
		return true
	case *types.Basic:
		return u.Info()&types.IsString != 0
	case *types.Pointer:
		_, ok := u.Elem().Underlying().(*types.Array)
		return ok
	}
	return false
}
