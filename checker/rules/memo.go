package rules

import (
	"go/ast"
	"go/token"
	"go/types"
	"sort"
	"strings"

	"golang.org/x/tools/go/packages"

	"j5verif/checker/core"
)

// MemoKeys (R-FLOW/memokey): a function that looks a key up in a map held by
// its receiver (or another non-local), returns the hit, and otherwise stores
// the result of a computation under that key is a memo. The stored value
// stands for the computation only if the key determines everything the
// computation reads. Two provable gaps are reported:
//
//   - the key is a projection (field, getter or method) of an argument of the
//     computation, and the computation reads other attributes of a value of
//     that type: two arguments that agree on the projection and differ
//     elsewhere share one entry;
//   - a parameter of the function is handed to the computation and does not
//     occur in the key at all.
//
// Keys derived through other functions are not judged.
func MemoKeys(r *core.Run, rels []string, table string) {
	r.Rule("R-FLOW/memokey", "for every memo in scope (`v, ok := M[K]` … `M[K] = G(args)` on the same non-local map in one function): each parameter of the function passed to G occurs in K; and where K takes only a field / getter / method of an argument A (A.f, A.GetF(), A.m()), G — with the same-package functions it calls, three levels deep — reads no other field, getter or method of a value of A's type. Otherwise two different arguments share a cache entry and the second caller gets the first one's result")
	n := 0
	for _, rel := range rels {
		pk := r.P.Pkg(rel)
		if pk == nil {
			r.Fatal("anchor: package %s not found", rel)
			continue
		}
		core.AllFuncDecls(pk, func(fd *ast.FuncDecl) {
			if strings.HasSuffix(r.P.Fset.Position(fd.Pos()).Filename, ".pb.go") {
				return
			}
			for _, m := range findMemos(pk, fd) {
				n++
				o := r.Add("R-FLOW/memokey", rel+"."+core.FuncName(fd)+" | "+m.mapNorm+"["+m.keyNorm+"] = "+m.calleeName+"(…)", m.store.Pos(), "memo of "+m.calleeName+" keyed by "+core.ExprStr(m.key))
				gaps := memoGaps(pk, fd, m)
				switch {
				case len(gaps) == 0:
					o.Auto("the key takes every argument of the computation whole")
				case table != "" && r.Table(table, o):
				default:
					o.Fail("%s", strings.Join(gaps, "; "))
				}
			}
		})
	}
	r.Analysed["memo_sites"] = n
}

type memo struct {
	store      *ast.AssignStmt
	key        ast.Expr
	mapNorm    string
	keyNorm    string
	call       *ast.CallExpr
	calleeName string
}

func findMemos(pk *packages.Package, fd *ast.FuncDecl) []*memo {
	info := pk.TypesInfo
	isMapIdx := func(e ast.Expr) *ast.IndexExpr {
		ix, ok := core.Unparen(e).(*ast.IndexExpr)
		if !ok {
			return nil
		}
		t := info.TypeOf(ix.X)
		if t == nil {
			return nil
		}
		if _, ok := t.Underlying().(*types.Map); !ok {
			return nil
		}
		// a non-local map: rooted at the receiver, a parameter or a package variable
		root := ix.X
		for {
			switch x := core.Unparen(root).(type) {
			case *ast.SelectorExpr:
				root = x.X
				continue
			case *ast.StarExpr:
				root = x.X
				continue
			}
			break
		}
		id, ok := core.Unparen(root).(*ast.Ident)
		if !ok {
			return nil
		}
		if _, isSel := core.Unparen(ix.X).(*ast.SelectorExpr); !isSel {
			// a bare identifier: only package-level maps count
			if v, ok := info.ObjectOf(id).(*types.Var); !ok || v.Parent() != pk.Types.Scope() {
				return nil
			}
		}
		return ix
	}
	looked := map[string]bool{}
	ast.Inspect(fd.Body, func(n ast.Node) bool {
		as, ok := n.(*ast.AssignStmt)
		if !ok || len(as.Rhs) != 1 {
			return true
		}
		if ix := isMapIdx(as.Rhs[0]); ix != nil {
			looked[core.NormExpr(info, ix.X)+"\x00"+core.NormExpr(info, resolveLocal(info, ix.Index))] = true
		}
		return true
	})
	if len(looked) == 0 {
		return nil
	}
	var out []*memo
	ast.Inspect(fd.Body, func(n ast.Node) bool {
		as, ok := n.(*ast.AssignStmt)
		if !ok || as.Tok != token.ASSIGN || len(as.Lhs) != 1 || len(as.Rhs) != 1 {
			return true
		}
		ix := isMapIdx(as.Lhs[0])
		if ix == nil {
			return true
		}
		key := resolveLocal(info, ix.Index)
		mn, kn := core.NormExpr(info, ix.X), core.NormExpr(info, key)
		if !looked[mn+"\x00"+kn] {
			return true
		}
		val := resolveLocal(info, as.Rhs[0])
		call, ok := core.Unparen(val).(*ast.CallExpr)
		if !ok || core.IsConversion(info, call) {
			return true
		}
		fn := core.CalleeFunc(info, call)
		if fn == nil || fn.Pkg() == nil || !core.IsSource(fn.Pkg().Path()) {
			return true
		}
		out = append(out, &memo{store: as, key: key, mapNorm: mn, keyNorm: kn, call: call, calleeName: core.RecordedName(fn)})
		return true
	})
	return out
}

// resolveLocal follows a local that receives exactly one value (`x := e`, or
// `x, err := f()`) to that value.
func resolveLocal(info *types.Info, e ast.Expr) ast.Expr {
	for i := 0; i < 4; i++ {
		id, ok := core.Unparen(e).(*ast.Ident)
		if !ok {
			return e
		}
		obj := info.ObjectOf(id)
		v, ok := obj.(*types.Var)
		if !ok || v.IsField() || core.Current == nil {
			return e
		}
		fd := core.Current.EnclosingDecl(obj.Pos())
		if fd == nil || fd.Body == nil {
			return e
		}
		var def ast.Expr
		n := 0
		ast.Inspect(fd.Body, func(nd ast.Node) bool {
			as, ok := nd.(*ast.AssignStmt)
			if !ok {
				return true
			}
			for i, l := range as.Lhs {
				if lid, ok := l.(*ast.Ident); ok && info.ObjectOf(lid) == obj {
					n++
					if len(as.Lhs) == len(as.Rhs) {
						def = as.Rhs[i]
					} else if len(as.Rhs) == 1 && i == 0 {
						def = as.Rhs[0]
					}
				}
			}
			return true
		})
		// a second assignment of the same call's results (v, err = f() after a miss) is the
		// same source; anything else stops the walk
		if def == nil || n > 2 {
			return e
		}
		e = def
	}
	return e
}

func memoGaps(pk *packages.Package, fd *ast.FuncDecl, m *memo) []string {
	info := pk.TypesInfo
	var gaps []string
	keyStr := core.ExprStr(m.key)
	// parameters of fd
	params := map[types.Object]bool{}
	for _, fl := range fd.Type.Params.List {
		for _, nm := range fl.Names {
			params[info.Defs[nm]] = true
		}
	}
	for ai, arg := range m.call.Args {
		arg = resolveLocal(info, arg)
		if tv, ok := info.Types[arg]; ok && tv.Value != nil {
			continue
		}
		t := info.TypeOf(arg)
		if t == nil || core.TypeStr(t) == "context.Context" {
			continue
		}
		as := core.ExprStr(arg)
		// how the key uses this argument
		whole, proj := keyUses(m.key, as)
		rootParam := false
		if id, ok := core.Unparen(arg).(*ast.Ident); ok && params[info.ObjectOf(id)] {
			rootParam = true
		}
		switch {
		case whole:
			continue
		case len(proj) == 0:
			if rootParam && !strings.Contains(keyStr, as) {
				gaps = append(gaps, "parameter "+as+" is handed to "+m.calleeName+" but does not take part in the key "+keyStr+": calls that differ only in "+as+" share one entry")
			}
			continue
		}
		reads := attributeReads(pk, m.call, ai, t)
		var extra []string
		for rd := range reads {
			if !proj[rd] {
				extra = append(extra, rd)
			}
		}
		sort.Strings(extra)
		if len(extra) > 0 {
			var ps []string
			for p := range proj {
				ps = append(ps, p)
			}
			sort.Strings(ps)
			gaps = append(gaps, "the key takes only "+strings.Join(ps, ", ")+" of "+as+" while "+m.calleeName+" also reads "+strings.Join(extra, ", ")+" of a "+core.TypeStr(t)+": two values that agree on "+strings.Join(ps, ", ")+" and differ there share one entry, and the second gets the first one's result")
		}
	}
	return gaps
}

// keyUses: does key contain the text of arg as a whole operand, and which
// attributes (A.f, A.GetF(), A.m()) of it does it select.
func keyUses(key ast.Expr, arg string) (whole bool, proj map[string]bool) {
	proj = map[string]bool{}
	var walk func(e ast.Node, parentSel bool)
	ast.Inspect(key, func(n ast.Node) bool {
		switch x := n.(type) {
		case *ast.SelectorExpr:
			if core.ExprStr(x.X) == arg {
				proj[attrName(x.Sel.Name)] = true
				return false
			}
		case ast.Expr:
			if core.ExprStr(x) == arg {
				whole = true
				return false
			}
		}
		return true
	})
	_ = walk
	return
}

func attrName(s string) string {
	if strings.HasPrefix(s, "Get") && len(s) > 3 && s[3] >= 'A' && s[3] <= 'Z' {
		return s[3:]
	}
	return s
}

// attributeReads: the fields, getters and methods read from values of type t
// inside the callee of call (argument index ai gives the parameter), looking
// three levels into same-package callees. Type-based: any value of that type.
func attributeReads(pk *packages.Package, call *ast.CallExpr, ai int, t types.Type) map[string]bool {
	out := map[string]bool{}
	info := pk.TypesInfo
	fn := core.CalleeFunc(info, call)
	if fn == nil {
		return out
	}
	cpk := pk
	if fn.Pkg() != pk.Types {
		if core.Current == nil {
			return out
		}
		cpk = core.Current.ByPkg[fn.Pkg().Path()]
		if cpk == nil {
			return out
		}
	}
	cd := core.DeclOf(cpk, fn.Origin())
	if cd == nil || cd.Body == nil {
		return out
	}
	want := core.TypeStr(t)
	core.InspectTree(cpk, cd.Body, func(n ast.Node) bool {
		sel, ok := n.(*ast.SelectorExpr)
		if !ok {
			return true
		}
		xt := cpk.TypesInfo.TypeOf(sel.X)
		if xt == nil || core.TypeStr(xt) != want {
			return true
		}
		out[attrName(sel.Sel.Name)] = true
		return true
	})
	return out
}
