package rules

import (
	"go/ast"
	"go/token"
	"go/types"
	"strings"

	"j5verif/checker/core"
)

// Facts known to hold at a program point, derived from the syntactic
// dominators of that point (enclosing conditions, earlier terminating
// if-statements in enclosing blocks, enclosing range/for headers, earlier
// defining assignments). Expressions are identified by their printed form;
// a fact about an expression is dropped when its root variable may be
// reassigned between the point where the fact was established and the use.
type Facts struct {
	MinLen  map[string]int    // len(E) >= n
	LtLen   map[string]string // index expr I (printed) -> E such that 0 <= I < len(E)
	LeLen   map[string]string // I <= len(E)
	NonNil  map[string]bool   // E != nil
	IsNil   map[string]bool   // E == nil
	MakeLen map[string]string // X -> Y where X := make([]T, len(Y)) (len(X) == len(Y))
	True    map[string]bool   // printed boolean expressions known true
	False   map[string]bool   // printed boolean expressions known false
	EqLen   map[string]int    // len(E) == n exactly
	factPos map[string]token.Pos
	GeZero  map[string]bool // I >= 0
	MinVal  map[string]int  // I >= n (n >= 1 recorded here; n == 0 also sets GeZero)
}

func newFacts() *Facts {
	return &Facts{MinLen: map[string]int{}, LtLen: map[string]string{}, LeLen: map[string]string{}, NonNil: map[string]bool{}, IsNil: map[string]bool{},
		MakeLen: map[string]string{}, True: map[string]bool{}, False: map[string]bool{}, EqLen: map[string]int{}, factPos: map[string]token.Pos{}, GeZero: map[string]bool{}, MinVal: map[string]int{}}
}

type factCtx struct {
	boolExpr map[string]ast.Expr  // boolean facts: the condition …
	boolFrom map[string]token.Pos // … and the position from which it is known
	info     *types.Info
	body     *ast.BlockStmt // enclosing function body
	f        *Facts
	// notBoth: pairs (X, Y) with ¬(X ∧ Y) known; oneOf: pairs with X ∨ Y known. Resolved against
	// the boolean facts at the end: X true gives Y false, X false gives Y true.
	notBoth [][2]ast.Expr
	oneOf   [][2]ast.Expr
	posOf   []token.Pos
}

// resolvePairs draws the consequences of the recorded ¬(X∧Y) and X∨Y facts.
func (c *factCtx) resolvePairs() {
	for round := 0; round < 3; round++ {
		for _, p := range c.notBoth {
			x, y := core.ExprStr(core.Unparen(p[0])), core.ExprStr(core.Unparen(p[1]))
			if c.f.True[x] && !c.f.False[y] {
				c.assume(p[1], false, token.NoPos)
			}
			if c.f.True[y] && !c.f.False[x] {
				c.assume(p[0], false, token.NoPos)
			}
		}
		for _, p := range c.oneOf {
			x, y := core.ExprStr(core.Unparen(p[0])), core.ExprStr(core.Unparen(p[1]))
			if c.f.False[x] && !c.f.True[y] {
				c.assume(p[1], true, token.NoPos)
			}
			if c.f.False[y] && !c.f.True[x] {
				c.assume(p[0], true, token.NoPos)
			}
		}
	}
}

func (c *factCtx) setMin(e string, n int, at token.Pos) {
	if n > c.f.MinLen[e] {
		c.f.MinLen[e] = n
	}
	if _, ok := c.f.factPos["len:"+e]; !ok {
		c.f.factPos["len:"+e] = at
	}
}

// lenArg returns E if e is len(E).
func lenArg(info *types.Info, e ast.Expr) (ast.Expr, bool) {
	c, ok := core.Unparen(e).(*ast.CallExpr)
	if !ok || len(c.Args) != 1 {
		return nil, false
	}
	id, ok := c.Fun.(*ast.Ident)
	if !ok || id.Name != "len" {
		return nil, false
	}
	if _, isB := info.Uses[id].(*types.Builtin); !isB {
		return nil, false
	}
	return c.Args[0], true
}

// assume records the facts implied by cond having the given truth value.
func (c *factCtx) assume(cond ast.Expr, truth bool, at token.Pos) {
	cond = core.Unparen(cond)
	switch x := cond.(type) {
	case *ast.UnaryExpr:
		if x.Op == token.NOT {
			c.assume(x.X, !truth, at)
			return
		}
	case *ast.BinaryExpr:
		switch x.Op {
		case token.LAND:
			if truth {
				c.assume(x.X, true, at)
				c.assume(x.Y, true, at)
			} else {
				c.notBoth = append(c.notBoth, [2]ast.Expr{x.X, x.Y})
			}
			return
		case token.LOR:
			if !truth {
				c.assume(x.X, false, at)
				c.assume(x.Y, false, at)
			} else {
				c.oneOf = append(c.oneOf, [2]ast.Expr{x.X, x.Y})
			}
			return
		}
		c.assumeCmp(x, truth, at)
	case *ast.CallExpr:
		if truth && core.CalleeName(c.info, x) == "strings.HasPrefix" && len(x.Args) == 2 {
			if s, ok := core.ConstString(c.info, x.Args[1]); ok {
				c.setMin(core.ExprStr(x.Args[0]), len(s), at)
			}
		}
		// a predicate method of the module whose body is `return len(recv.f) > K`
		// (hasMore, isEmpty, …): the call being true says so about the receiver
		if truth {
			if field, min, ok := lenPredicate(c.info, x); ok {
				if sel, isSel := x.Fun.(*ast.SelectorExpr); isSel {
					c.setMin(core.ExprStr(sel.X)+"."+field, min, at)
				}
			}
			// a predicate function whose body is `return len(p) > K && …` for one of its parameters:
			// the call being true says so about the argument
			if ai, min, ok := lenParamPredicate(c.info, x); ok && ai < len(x.Args) {
				c.setMin(core.ExprStr(x.Args[ai]), min, at)
			}
		}
	}
	s := core.ExprStr(cond)
	if truth {
		c.f.True[s] = true
	} else {
		c.f.False[s] = true
	}
	c.f.factPos["b:"+s] = at
	if c.boolExpr == nil {
		c.boolExpr, c.boolFrom = map[string]ast.Expr{}, map[string]token.Pos{}
	}
	from := at
	if cond.End() > from {
		from = cond.End()
	}
	c.boolExpr[s], c.boolFrom[s] = cond, from
}

// dropStale removes the boolean facts about a variable that is assigned between
// the place the fact was established and the target: `if strings.HasPrefix(s,
// "-") { return }; s = strings.TrimLeft(s, "0")` says nothing about the new s.
func (c *factCtx) dropStale(target ast.Node) {
	if len(c.boolExpr) == 0 || c.body == nil || target == nil {
		return
	}
	type asg struct {
		obj      types.Object
		pos, end token.Pos
	}
	var asgs []asg
	ast.Inspect(c.body, func(n ast.Node) bool {
		switch x := n.(type) {
		case *ast.AssignStmt:
			for _, l := range x.Lhs {
				if id, ok := core.Unparen(l).(*ast.Ident); ok {
					if o := c.info.Uses[id]; o != nil {
						asgs = append(asgs, asg{o, x.Pos(), x.End()})
					}
				}
			}
		case *ast.IncDecStmt:
			if id, ok := core.Unparen(x.X).(*ast.Ident); ok {
				if o := c.info.Uses[id]; o != nil {
					asgs = append(asgs, asg{o, x.Pos(), x.End()})
				}
			}
		}
		return true
	})
	if len(asgs) == 0 {
		return
	}
	for s, e := range c.boolExpr {
		from := c.boolFrom[s]
		stale := false
		ast.Inspect(e, func(n ast.Node) bool {
			if id, ok := n.(*ast.Ident); ok {
				if o := c.info.Uses[id]; o != nil {
					for _, a := range asgs {
						// the statement the target is part of assigns after the target is evaluated
						if a.obj == o && a.pos > from && a.pos < target.Pos() && a.end < target.End() {
							stale = true
						}
					}
				}
			}
			return !stale
		})
		if stale {
			delete(c.f.True, s)
			delete(c.f.False, s)
		}
	}
}

func negate(op token.Token) token.Token {
	switch op {
	case token.LSS:
		return token.GEQ
	case token.LEQ:
		return token.GTR
	case token.GTR:
		return token.LEQ
	case token.GEQ:
		return token.LSS
	case token.EQL:
		return token.NEQ
	case token.NEQ:
		return token.EQL
	}
	return token.ILLEGAL
}

func flip(op token.Token) token.Token {
	switch op {
	case token.LSS:
		return token.GTR
	case token.LEQ:
		return token.GEQ
	case token.GTR:
		return token.LSS
	case token.GEQ:
		return token.LEQ
	}
	return op
}

func (c *factCtx) assumeCmp(b *ast.BinaryExpr, truth bool, at token.Pos) {
	op := b.Op
	if !truth {
		op = negate(op)
	}
	if op == token.ILLEGAL {
		return
	}
	x, y := core.Unparen(b.X), core.Unparen(b.Y)
	// nil comparisons
	if core.IsNilIdent(c.info, y) || core.IsNilIdent(c.info, x) {
		e := x
		if core.IsNilIdent(c.info, x) {
			e = y
		}
		switch op {
		case token.NEQ:
			c.f.NonNil[core.ExprStr(e)] = true
			c.f.factPos["nil:"+core.ExprStr(e)] = at
		case token.EQL:
			c.f.IsNil[core.ExprStr(e)] = true
		}
		return
	}
	// normalise to len(E) op K  or I op len(E)
	if _, ok := lenArg(c.info, y); ok {
		if _, ok2 := lenArg(c.info, x); !ok2 {
			// I op len(E)
			le, _ := lenArg(c.info, y)
			is := core.ExprStr(x)
			if k, isConst := core.ConstInt(c.info, x); isConst {
				// K op len(E)  ==  len(E) flip(op) K
				c.lenCmp(le, flip(op), int(k), at)
				return
			}
			switch op {
			case token.LSS:
				c.f.LtLen[is] = core.ExprStr(le)
				c.f.LeLen[is] = core.ExprStr(le)
				c.f.factPos["idx:"+is] = at
			case token.LEQ:
				c.f.LeLen[is] = core.ExprStr(le)
				c.f.factPos["idx:"+is] = at
			}
			return
		}
	}
	if le, ok := lenArg(c.info, x); ok {
		if k, isConst := core.ConstInt(c.info, y); isConst {
			c.lenCmp(le, op, int(k), at)
			return
		}
		// len(E) op I  ==  I flip(op) len(E)
		is := core.ExprStr(y)
		switch flip(op) {
		case token.LSS:
			c.f.LtLen[is] = core.ExprStr(le)
			c.f.LeLen[is] = core.ExprStr(le)
			c.f.factPos["idx:"+is] = at
		case token.LEQ:
			c.f.LeLen[is] = core.ExprStr(le)
			c.f.factPos["idx:"+is] = at
		}
		return
	}
	// I >= 0 / I > -1 / I != -1 (for results of strings.Index etc.)
	if k, ok := core.ConstInt(c.info, y); ok {
		is := core.ExprStr(x)
		lb, has := int64(0), false
		switch op {
		case token.GEQ:
			lb, has = k, true
		case token.GTR:
			lb, has = k+1, true
		case token.EQL:
			lb, has = k, true
		}
		if has && lb >= 0 {
			if int(lb) > c.f.MinVal[is] {
				c.f.MinVal[is] = int(lb)
			}
			c.f.GeZero[is] = true
			c.f.factPos["ge0:"+is] = at
		}
		if (op == token.GEQ && k >= 0) || (op == token.GTR && k >= -1) {
			c.f.GeZero[is] = true
			c.f.factPos["ge0:"+is] = at
		}
		if op == token.NEQ && k == -1 {
			c.f.GeZero[is] = true // for Index-like results: -1 is the only negative value
			c.f.factPos["ge0:"+is] = at
		}
	}
}

func (c *factCtx) lenCmp(e ast.Expr, op token.Token, k int, at token.Pos) {
	s := core.ExprStr(e)
	switch op {
	case token.GTR:
		c.setMin(s, k+1, at)
	case token.GEQ:
		c.setMin(s, k, at)
	case token.EQL:
		c.setMin(s, k, at)
		c.f.EqLen[s] = k
	case token.NEQ:
		if k == 0 {
			c.setMin(s, 1, at)
		}
	}
}

// terminates reports whether a statement list always leaves the enclosing
// statement sequence (return, panic, continue, break, goto, os.Exit, log.Fatal).
func terminates(info *types.Info, list []ast.Stmt) bool {
	if len(list) == 0 {
		return false
	}
	switch x := list[len(list)-1].(type) {
	case *ast.ReturnStmt:
		return true
	case *ast.BranchStmt:
		return x.Tok == token.CONTINUE || x.Tok == token.BREAK || x.Tok == token.GOTO
	case *ast.ExprStmt:
		if c, ok := x.X.(*ast.CallExpr); ok {
			switch core.CalleeName(info, c) {
			case "builtin.panic", "os.Exit", "log.Fatal", "log.Fatalf", "log.Fatalln":
				return true
			}
		}
	case *ast.BlockStmt:
		return terminates(info, x.List)
	case *ast.IfStmt:
		if x.Else == nil {
			return false
		}
		var elseList []ast.Stmt
		switch e := x.Else.(type) {
		case *ast.BlockStmt:
			elseList = e.List
		case *ast.IfStmt:
			elseList = []ast.Stmt{e}
		}
		return terminates(info, x.Body.List) && terminates(info, elseList)
	}
	return false
}

// FactsAt computes the facts holding at target inside body.
func FactsAt(info *types.Info, body *ast.BlockStmt, target ast.Node) *Facts {
	c := &factCtx{info: info, body: body, f: newFacts()}
	path := core.PathTo(body, target)
	for i := 0; i+1 < len(path); i++ {
		parent, child := path[i], path[i+1]
		switch p := parent.(type) {
		case *ast.BlockStmt:
			c.seq(p.List, child)
		case *ast.CaseClause:
			inBody := false
			for _, s := range p.Body {
				if ast.Node(s) == child {
					inBody = true
				}
			}
			if inBody {
				c.seq(p.Body, child)
				// tagless switch: a single case expression is a condition
				if sw := enclosingSwitch(path[:i+1]); sw != nil {
					if sw.Tag == nil {
						// the cases this clause fell past are false here
						for _, cl := range sw.Body.List {
							if cl == ast.Stmt(p) {
								break
							}
							for _, ce := range cl.(*ast.CaseClause).List {
								c.assume(ce, false, p.Pos())
							}
						}
					}
					if sw.Tag == nil && len(p.List) == 1 {
						c.assume(p.List[0], true, p.Pos())
					} else if sw.Tag != nil && len(p.List) == 1 {
						if le, ok := lenArg(info, sw.Tag); ok {
							if k, ok := core.ConstInt(info, p.List[0]); ok {
								c.lenCmp(le, token.EQL, int(k), p.Pos())
							}
						}
					}
					if sw.Tag != nil {
						// tagged switch: `switch t { case a: … }` is `if t == a { … }`; the clauses this one
						// comes after (all of them, for default) did not match
						if len(p.List) == 1 {
							c.assume(&ast.BinaryExpr{X: sw.Tag, Op: token.EQL, Y: p.List[0]}, true, p.Pos())
						}
						for _, cl := range sw.Body.List {
							if cl == ast.Stmt(p) {
								if p.List != nil {
									break
								}
								continue
							}
							for _, ce := range cl.(*ast.CaseClause).List {
								c.assume(&ast.BinaryExpr{X: sw.Tag, Op: token.EQL, Y: ce}, false, p.Pos())
							}
						}
					}
				}
			}
		case *ast.CommClause:
			c.seq(p.Body, child)
		case *ast.IfStmt:
			if child == ast.Node(p.Body) {
				c.assume(p.Cond, true, p.Pos())
			} else if p.Else != nil && child == ast.Node(p.Else) {
				c.assume(p.Cond, false, p.Pos())
			}
		case *ast.BinaryExpr:
			if child == ast.Node(p.Y) {
				switch p.Op {
				case token.LAND:
					c.assume(p.X, true, p.Pos())
				case token.LOR:
					c.assume(p.X, false, p.Pos())
				}
			}
		case *ast.ForStmt:
			if p.Cond != nil && (child == ast.Node(p.Body) || (p.Post != nil && child == ast.Node(p.Post))) {
				c.assume(p.Cond, true, p.Pos())
			}
		case *ast.RangeStmt:
			if child == ast.Node(p.Body) && p.Key != nil {
				if id, ok := p.Key.(*ast.Ident); ok && id.Name != "_" {
					t := info.TypeOf(p.X)
					if t != nil {
						switch u := t.Underlying().(type) {
						case *types.Slice, *types.Array, *types.Basic:
							_ = u
							if b, isB := t.Underlying().(*types.Basic); isB && b.Info()&types.IsString == 0 {
								break
							}
							xs := core.ExprStr(p.X)
							c.f.LtLen[id.Name] = xs
							c.f.LeLen[id.Name] = xs
							c.f.GeZero[id.Name] = true
							c.f.factPos["idx:"+id.Name] = p.Body.Pos()
						case *types.Pointer:
							if _, isArr := u.Elem().Underlying().(*types.Array); isArr {
								xs := core.ExprStr(p.X)
								c.f.LtLen[id.Name] = xs
								c.f.factPos["idx:"+id.Name] = p.Body.Pos()
							}
						}
					}
				}
			}
		}
	}
	c.dropStale(target)
	c.resolvePairs()
	return c.f
}

func enclosingSwitch(path []ast.Node) *ast.SwitchStmt {
	for i := len(path) - 1; i >= 0; i-- {
		if s, ok := path[i].(*ast.SwitchStmt); ok {
			return s
		}
		if _, ok := path[i].(*ast.BlockStmt); ok && i < len(path)-2 {
			// the switch's own body block is directly above the clause
			continue
		}
	}
	return nil
}

// seq processes the statements preceding child in a statement list.
func (c *factCtx) seq(list []ast.Stmt, child ast.Node) {
	for _, s := range list {
		if ast.Node(s) == child {
			return
		}
		switch x := s.(type) {
		case *ast.IfStmt:
			if x.Init != nil {
				c.defs(x.Init)
			}
			thenT := terminates(c.info, x.Body.List)
			var elseT bool
			switch e := x.Else.(type) {
			case *ast.BlockStmt:
				elseT = terminates(c.info, e.List)
			case *ast.IfStmt:
				elseT = terminates(c.info, []ast.Stmt{e})
			}
			if thenT && x.Else == nil {
				c.assume(x.Cond, false, x.End())
			} else if thenT && !elseT {
				c.assume(x.Cond, false, x.End())
			} else if elseT && !thenT && x.Else != nil {
				c.assume(x.Cond, true, x.End())
			}
		case *ast.SwitchStmt:
			// a tagless switch whose clause leaves the function: its condition is false afterwards
			if x.Tag == nil {
				for _, cl := range x.Body.List {
					cc := cl.(*ast.CaseClause)
					if cc.List != nil && terminates(c.info, cc.Body) {
						for _, ce := range cc.List {
							c.assume(ce, false, cc.Pos())
						}
					}
				}
			}
			// switch len(x) { case 0: return ...; }  → after it len(x) != 0
			if x.Tag != nil {
				if le, ok := lenArg(c.info, x.Tag); ok {
					hasDefault := false
					for _, cl := range x.Body.List {
						cc := cl.(*ast.CaseClause)
						if cc.List == nil {
							hasDefault = true
						}
					}
					if !hasDefault {
						for _, cl := range x.Body.List {
							cc := cl.(*ast.CaseClause)
							if len(cc.List) == 1 && terminates(c.info, cc.Body) {
								if k, ok := core.ConstInt(c.info, cc.List[0]); ok && k == 0 {
									c.lenCmp(le, token.NEQ, 0, x.End())
								}
							}
						}
					}
				}
			}
		default:
			c.defs(s)
		}
	}
}

// defs records facts from defining assignments.
func (c *factCtx) defs(s ast.Stmt) {
	as, ok := s.(*ast.AssignStmt)
	if !ok {
		if ds, ok := s.(*ast.DeclStmt); ok {
			if gd, ok := ds.Decl.(*ast.GenDecl); ok {
				for _, sp := range gd.Specs {
					if vs, ok := sp.(*ast.ValueSpec); ok && len(vs.Names) == len(vs.Values) {
						for i := range vs.Names {
							c.def1(vs.Names[i], vs.Values[i], vs.Pos())
						}
					}
				}
			}
		}
		return
	}
	if len(as.Lhs) != len(as.Rhs) {
		return
	}
	for i := range as.Lhs {
		c.def1(as.Lhs[i], as.Rhs[i], as.End())
	}
}

func (c *factCtx) def1(lhs, rhs ast.Expr, at token.Pos) {
	ls := core.ExprStr(lhs)
	rhs = core.Unparen(rhs)
	switch x := rhs.(type) {
	case *ast.CallExpr:
		switch core.CalleeName(c.info, x) {
		case "strings.Split":
			if sep, ok := core.ConstString(c.info, x.Args[1]); ok && sep != "" {
				c.f.MinLen[ls] = 1
				c.f.factPos["len:"+ls] = at
			}
		case "builtin.make":
			if len(x.Args) >= 2 {
				if le, ok := lenArg(c.info, x.Args[1]); ok {
					c.f.MakeLen[ls] = core.ExprStr(le)
					c.f.factPos["make:"+ls] = at
				} else if k, ok := core.ConstInt(c.info, x.Args[1]); ok {
					c.f.MinLen[ls] = int(k)
					c.f.factPos["len:"+ls] = at
				} else {
					// make([]T, n): len == n; index facts I < n are handled via MakeLen with the printed n
					c.f.MakeLen[ls] = "#" + core.ExprStr(x.Args[1])
					c.f.factPos["make:"+ls] = at
				}
			}
		}
	case *ast.UnaryExpr:
		if cl, ok := x.X.(*ast.CompositeLit); ok && x.Op == token.AND {
			c.litFields(ls, cl, at)
		}
	case *ast.CompositeLit:
		c.litFields(ls, x, at)
		if _, isSlice := c.info.TypeOf(x).Underlying().(*types.Slice); isSlice {
			n := 0
			for _, e := range x.Elts {
				if _, kv := e.(*ast.KeyValueExpr); kv {
					n = -1
					break
				}
				n++
			}
			if n > 0 {
				c.f.MinLen[ls] = n
				c.f.factPos["len:"+ls] = at
			}
		}
	}
}

// rootIdent returns the leftmost identifier of a printed access path.
func rootIdentOf(e ast.Expr) *ast.Ident {
	for {
		switch x := core.Unparen(e).(type) {
		case *ast.Ident:
			return x
		case *ast.SelectorExpr:
			e = x.X
		case *ast.IndexExpr:
			e = x.X
		case *ast.StarExpr:
			e = x.X
		case *ast.SliceExpr:
			e = x.X
		case *ast.CallExpr:
			if s, ok := x.Fun.(*ast.SelectorExpr); ok {
				e = s.X
				continue
			}
			return nil
		default:
			return nil
		}
	}
}

// Stable reports whether the access path printed as exprStr (whose root
// variable is root) cannot have been modified between the program point
// `from` and the use at `site`: no assignment, inc/dec, address-taking or
// method call with pointer receiver on a prefix of the path occurs textually
// in (from, site), nor anywhere inside a loop that encloses site but not from.
func Stable(info *types.Info, body *ast.BlockStmt, root types.Object, exprStr string, from token.Pos, site ast.Node) bool {
	if root == nil {
		return false
	}
	// loops enclosing site but not `from`
	var loops []ast.Node
	for _, n := range core.PathTo(body, site) {
		switch n.(type) {
		case *ast.ForStmt, *ast.RangeStmt:
			if !(n.Pos() <= from && from <= n.End()) {
				loops = append(loops, n)
			}
		}
	}
	inDanger := func(p token.Pos) bool {
		if p > from && p < site.Pos() {
			return true
		}
		for _, l := range loops {
			if l.Pos() <= p && p <= l.End() {
				return true
			}
		}
		return false
	}
	touches := func(e ast.Expr) bool {
		s := core.ExprStr(e)
		// a write to a prefix of the path (or the path itself, or an extension through the same root when the path is the root)
		return s == exprStr || strings.HasPrefix(exprStr, s+".") || strings.HasPrefix(exprStr, s+"[")
	}
	stable := true
	ast.Inspect(body, func(n ast.Node) bool {
		if !stable || n == nil {
			return false
		}
		switch x := n.(type) {
		case *ast.AssignStmt:
			if x.Pos() <= site.Pos() && site.End() <= x.End() {
				// the site is part of this statement's right-hand side: evaluated before the store
				onRhs := false
				for _, rh := range x.Rhs {
					if rh.Pos() <= site.Pos() && site.End() <= rh.End() {
						onRhs = true
					}
				}
				if onRhs && len(loops) == 0 {
					return true
				}
			}
			for _, l := range x.Lhs {
				if id := rootIdentOf(l); id != nil && (info.Uses[id] == root || info.Defs[id] == root) && touches(l) && inDanger(x.Pos()) {
					if x.Tok == token.DEFINE && info.Defs[id] != nil && x.Pos() < from {
						continue
					}
					stable = false
				}
			}
		case *ast.IncDecStmt:
			if id := rootIdentOf(x.X); id != nil && info.Uses[id] == root && touches(x.X) && inDanger(x.Pos()) {
				stable = false
			}
		case *ast.UnaryExpr:
			if x.Op == token.AND {
				if id := rootIdentOf(x.X); id != nil && info.Uses[id] == root && touches(x.X) && inDanger(x.Pos()) {
					stable = false
				}
			}
		case *ast.RangeStmt:
			for _, l := range []ast.Expr{x.Key, x.Value} {
				if l == nil {
					continue
				}
				if id := rootIdentOf(l); id != nil && x.Tok == token.ASSIGN && info.Uses[id] == root && touches(l) && inDanger(x.Pos()) {
					stable = false
				}
			}
		}
		return true
	})
	return stable
}

// litFields: x := &T{F: make([]E, len(Y))} gives len(x.F) == len(Y).
func (c *factCtx) litFields(ls string, cl *ast.CompositeLit, at token.Pos) {
	for _, e := range cl.Elts {
		kv, ok := e.(*ast.KeyValueExpr)
		if !ok {
			continue
		}
		k, ok := kv.Key.(*ast.Ident)
		if !ok {
			continue
		}
		call, ok := core.Unparen(kv.Value).(*ast.CallExpr)
		if !ok || core.CalleeName(c.info, call) != "builtin.make" || len(call.Args) < 2 {
			continue
		}
		if le, ok := lenArg(c.info, call.Args[1]); ok {
			c.f.MakeLen[ls+"."+k.Name] = core.ExprStr(le)
			c.f.factPos["make:"+ls+"."+k.Name] = at
		}
	}
}

// lenPredicate recognises a call of a zero-argument method of the module whose
// whole body is `return len(r.f) > K` (or >= K, != 0): it returns f and the
// minimum length the true result implies.
func lenPredicate(info *types.Info, call *ast.CallExpr) (field string, min int, ok bool) {
	if len(call.Args) != 0 || core.Current == nil {
		return "", 0, false
	}
	fn := core.CalleeFunc(info, call)
	if fn == nil || fn.Pkg() == nil || !core.IsSource(fn.Pkg().Path()) {
		return "", 0, false
	}
	pk := core.Current.ByPkg[fn.Pkg().Path()]
	if pk == nil {
		return "", 0, false
	}
	fd := core.DeclOf(pk, fn.Origin())
	if fd == nil || fd.Body == nil || len(fd.Body.List) != 1 || fd.Recv == nil || len(fd.Recv.List) != 1 || len(fd.Recv.List[0].Names) != 1 {
		return "", 0, false
	}
	ret, isRet := fd.Body.List[0].(*ast.ReturnStmt)
	if !isRet || len(ret.Results) != 1 {
		return "", 0, false
	}
	b, isBin := core.Unparen(ret.Results[0]).(*ast.BinaryExpr)
	if !isBin {
		return "", 0, false
	}
	le, isLen := lenArg(pk.TypesInfo, b.X)
	if !isLen {
		return "", 0, false
	}
	sel, isSel := core.Unparen(le).(*ast.SelectorExpr)
	if !isSel {
		return "", 0, false
	}
	if id, isID := core.Unparen(sel.X).(*ast.Ident); !isID || id.Name != fd.Recv.List[0].Names[0].Name {
		return "", 0, false
	}
	k, isC := core.ConstInt(pk.TypesInfo, b.Y)
	if !isC {
		return "", 0, false
	}
	switch b.Op {
	case token.GTR:
		return sel.Sel.Name, int(k) + 1, true
	case token.GEQ:
		return sel.Sel.Name, int(k), true
	case token.NEQ:
		if k == 0 {
			return sel.Sel.Name, 1, true
		}
	}
	return "", 0, false
}

// lenParamPredicate: the callee is a module function whose body is one return of a conjunction that
// contains `len(<parameter i>) > K` (or >= K, != 0); returns i and the implied minimum length.
func lenParamPredicate(info *types.Info, call *ast.CallExpr) (int, int, bool) {
	if core.Current == nil {
		return 0, 0, false
	}
	fn := core.CalleeFunc(info, call)
	if fn == nil || fn.Pkg() == nil || !core.IsSource(fn.Pkg().Path()) {
		return 0, 0, false
	}
	pk := core.Current.ByPkg[fn.Pkg().Path()]
	if pk == nil {
		return 0, 0, false
	}
	fd := core.DeclOf(pk, fn.Origin())
	if fd == nil || fd.Body == nil || len(fd.Body.List) != 1 || fd.Type.Params == nil {
		return 0, 0, false
	}
	ret, isRet := fd.Body.List[0].(*ast.ReturnStmt)
	if !isRet || len(ret.Results) != 1 {
		return 0, 0, false
	}
	params := map[string]int{}
	i := 0
	for _, p := range fd.Type.Params.List {
		for _, nm := range p.Names {
			params[nm.Name] = i
			i++
		}
	}
	var conj []ast.Expr
	var split func(e ast.Expr)
	split = func(e ast.Expr) {
		if b, ok := core.Unparen(e).(*ast.BinaryExpr); ok && b.Op == token.LAND {
			split(b.X)
			split(b.Y)
			return
		}
		conj = append(conj, core.Unparen(e))
	}
	split(ret.Results[0])
	for _, e := range conj {
		b, ok := e.(*ast.BinaryExpr)
		if !ok {
			continue
		}
		le, isLen := lenArg(pk.TypesInfo, b.X)
		if !isLen {
			continue
		}
		id, isID := core.Unparen(le).(*ast.Ident)
		if !isID {
			continue
		}
		ai, isParam := params[id.Name]
		if !isParam {
			continue
		}
		k, isC := core.ConstInt(pk.TypesInfo, b.Y)
		if !isC {
			continue
		}
		switch b.Op {
		case token.GTR:
			return ai, int(k) + 1, true
		case token.GEQ:
			return ai, int(k), true
		case token.NEQ:
			if k == 0 {
				return ai, 1, true
			}
		}
	}
	return 0, 0, false
}
