package rules

import (
	"fmt"
	"go/ast"
	"go/token"
	"go/types"
	"strings"

	"golang.org/x/tools/go/packages"

	"j5verif/checker/core"
)

const pvType = "google.golang.org/protobuf/reflect/protoreflect.Value"

// reflect.Value methods that panic on the zero Value (and, for the typed
// accessors, on a Value of the wrong kind), with the guard that makes the
// call safe.
var reflectGuards = map[string][]string{
	"Type": {"IsValid"}, "Elem": {"IsValid"}, "Interface": {"CanInterface", "IsValid"},
	"Convert": {"CanConvert"}, "Float": {"CanFloat"}, "Int": {"CanInt"}, "Uint": {"CanUint"},
	"Len": {"IsValid"}, "Index": {"IsValid"}, "Field": {"IsValid"}, "NumField": {"IsValid"},
	"MapKeys": {"IsValid"}, "MapIndex": {"IsValid"}, "IsNil": {"IsValid"}, "Bool": {"IsValid"},
	"Bytes": {"IsValid"}, "Complex": {"CanComplex"}, "Set": {"CanSet"}, "Addr": {"CanAddr"},
	"Call": {"IsValid"}, "Method": {"IsValid"}, "NumMethod": {"IsValid"}, "Pointer": {"IsValid"},
	"Slice": {"IsValid"}, "Cap": {"IsValid"}, "OverflowInt": {"CanInt"}, "OverflowUint": {"CanUint"}, "OverflowFloat": {"CanFloat"},
}

// checkP6 enumerates API-precondition obligations at a call.
func checkP6(r *core.Run, f *ScopeFunc, call *ast.CallExpr, table string) {
	r.Rule("R-PANIC/P6", "calls of library APIs that panic when a precondition fails: reflect.Value accessors need the matching Can*/IsValid guard on the same value; protoreflect List.Append/Set, Map.Set and Message.Set need a valid protoreflect.Value (constructed by ValueOf*, tested with IsValid, or produced by a function that never returns the zero Value with a nil error; a parameter moves the obligation to every call site); regexp.MustCompile/uuid.Must/template.Must need constant or checked input; big.Int radix must be a constant in [2,62]; strings.Repeat needs a non-negative count")
	info := f.Pkg.TypesInfo
	fn := core.CalleeFunc(info, call)
	if fn == nil {
		return
	}
	full := fn.FullName()
	sel, _ := call.Fun.(*ast.SelectorExpr)
	switch {
	case strings.HasPrefix(full, "(reflect.Value)."):
		m := fn.Name()
		guards, ok := reflectGuards[m]
		if !ok || sel == nil {
			return
		}
		rv := core.ExprStr(sel.X)
		o := r.Add("R-PANIC/P6", siteKey(f, "reflect "+core.ExprStr(call.Fun)), call.Pos(), fmt.Sprintf("reflect.Value.%s on %s", m, rv))
		facts := FactsAt(info, f.Body, call)
		for _, g := range guards {
			for k := range facts.True {
				if strings.HasPrefix(k, rv+"."+g+"(") {
					o.Auto("dominated by %s", k)
					return
				}
			}
		}
		// rv.Kind() == reflect.X (X != Invalid) on a path where rv is not reassigned implies validity
		if contains(guards, "IsValid") {
			for k := range facts.True {
				if strings.HasPrefix(k, rv+".Kind() == ") && !strings.HasSuffix(k, "Invalid") {
					if id := rootIdentOf(sel.X); id != nil && Stable(info, f.Body, info.Uses[id], rv, facts.factPos["b:"+k], call) {
						o.Auto("dominated by %s (a zero Value has Kind Invalid) with %s unmodified in between", k, rv)
						return
					}
				}
			}
		}
		// inside `switch rv.Kind()` under a non-default, non-Invalid case the value is valid
		if inKindSwitch(info, f, call, rv) && contains(guards, "IsValid") {
			o.Auto("inside a case of switch %s.Kind() (a zero Value has Kind Invalid)", rv)
			return
		}
		if !r.Table(table, o) {
			o.Fail("no dominating %s guard on %s: panics on the zero Value (reflect.ValueOf(nil)) or a value of another kind", strings.Join(guards, "/"), rv)
		}
	case full == "regexp.MustCompile" || full == "github.com/google/uuid.Must" || full == "text/template.Must" || full == "html/template.Must":
		if full == "regexp.MustCompile" {
			if _, ok := core.ConstString(info, call.Args[0]); ok {
				return // constant pattern: fails at init for every run or never
			}
		}
		o := r.Add("R-PANIC/P6", siteKey(f, "must "+core.ExprStr(call.Fun)), call.Pos(), full+" with non-constant input")
		if !r.Table(table, o) {
			o.Fail("panics when the input is invalid")
		}
	case full == "(*math/big.Int).Text" || full == "(*math/big.Int).SetString":
		arg := call.Args[len(call.Args)-1]
		if full == "(*math/big.Int).Text" {
			arg = call.Args[0]
		}
		o := r.Add("R-PANIC/P6", siteKey(f, "radix "+core.ExprStr(call.Fun)), call.Pos(), "big.Int radix")
		if k, ok := core.ConstInt(info, arg); ok && (k == 0 && full != "(*math/big.Int).Text" || k >= 2 && k <= 62) {
			o.Auto("constant radix %d", k)
		} else {
			o.Fail("radix is not a constant in [2,62]")
		}
	case full == "strings.Repeat":
		if k, ok := core.ConstInt(info, call.Args[1]); ok && k >= 0 {
			return
		}
		if _, isLen := lenArg(info, call.Args[1]); isLen {
			return // len(..) is never negative
		}
		o := r.Add("R-PANIC/P6", siteKey(f, "repeat "+core.ExprStr(call.Args[1])), call.Pos(), "strings.Repeat count "+core.ExprStr(call.Args[1]))
		facts := FactsAt(info, f.Body, call)
		cs := core.ExprStr(call.Args[1])
		if facts.GeZero[cs] || facts.False[cs+" < 0"] {
			o.Auto("count tested non-negative")
		} else if why, ok := nonNegModArith(info, call.Args[1]); ok {
			o.Auto("%s", why)
		} else if why, ok := nonNegField(f.Pkg, call.Args[1]); ok {
			o.Auto("%s", why)
		} else if !r.Table(table, o) {
			o.Fail("count may be negative: strings.Repeat panics")
		}
	case full == "(google.golang.org/protobuf/reflect/protoreflect.List).Append",
		full == "(google.golang.org/protobuf/reflect/protoreflect.List).Set",
		full == "(google.golang.org/protobuf/reflect/protoreflect.Map).Set",
		full == "(google.golang.org/protobuf/reflect/protoreflect.Message).Set":
		arg := call.Args[len(call.Args)-1]
		o := r.Add("R-PANIC/P6", siteKey(f, "pv "+core.ExprStr(call.Fun)+"("+core.ExprStr(arg)+")"), call.Pos(), fn.Name()+" of protoreflect.Value "+core.ExprStr(arg))
		vc := &validCtx{r: r, depth: 0, seen: map[string]bool{}}
		if why, ok := vc.valid(f, arg, call); ok {
			o.Auto("%s", why)
		} else if !r.Table(table, o) {
			o.Fail("the value may be the zero protoreflect.Value (%s): %s panics on an invalid value", why, fn.Name())
		}
	}
}

func contains(l []string, s string) bool {
	for _, x := range l {
		if x == s {
			return true
		}
	}
	return false
}

func inKindSwitch(info *types.Info, f *ScopeFunc, n ast.Node, rv string) bool {
	path := core.PathTo(f.Body, n)
	for i := len(path) - 1; i >= 0; i-- {
		cc, ok := path[i].(*ast.CaseClause)
		if !ok || cc.List == nil {
			continue
		}
		for j := i - 1; j >= 0; j-- {
			if sw, ok := path[j].(*ast.SwitchStmt); ok {
				if sw.Tag != nil && core.ExprStr(sw.Tag) == rv+".Kind()" {
					for _, e := range cc.List {
						if strings.HasSuffix(core.ExprStr(e), "Invalid") {
							return false
						}
					}
					return true
				}
				break
			}
		}
	}
	return false
}

// ---------- validity of protoreflect.Value expressions ----------

type validCtx struct {
	r     *core.Run
	depth int
	seen  map[string]bool
}

var scopeIndex map[*core.Run]map[types.Object]*ScopeFunc
var allFuncIndex map[*core.Run]map[types.Object]*ScopeFunc

// funcByObj finds the declaration of a module function (in or out of scope).
func funcByObj(r *core.Run, obj types.Object) *ScopeFunc {
	if allFuncIndex == nil {
		allFuncIndex = map[*core.Run]map[types.Object]*ScopeFunc{}
	}
	idx := allFuncIndex[r]
	if idx == nil {
		idx = map[types.Object]*ScopeFunc{}
		for path, pk := range r.P.ByPkg {
			if !core.IsSource(path) {
				continue
			}
			pk := pk
			core.AllFuncDecls(pk, func(fd *ast.FuncDecl) {
				if o := pk.TypesInfo.Defs[fd.Name]; o != nil {
					name := strings.TrimPrefix(path, core.Module+"/") + "." + core.FuncName(fd)
					idx[o] = &ScopeFunc{Name: name, Pkg: pk, Node: fd, Body: fd.Body, Type: fd.Type}
				}
			})
		}
		allFuncIndex[r] = idx
	}
	if f, ok := obj.(*types.Func); ok {
		return idx[f.Origin()]
	}
	return idx[obj]
}

// valid decides whether expression e (of type protoreflect.Value), used at
// node `at` inside f, is a valid (non-zero) Value.
func (vc *validCtx) valid(f *ScopeFunc, e ast.Expr, at ast.Node) (string, bool) {
	info := f.Pkg.TypesInfo
	e = core.Unparen(e)
	es := core.ExprStr(e)
	facts := FactsAt(info, f.Body, at)
	if facts.True[es+".IsValid()"] {
		return "dominated by " + es + ".IsValid()", true
	}
	switch x := e.(type) {
	case *ast.CallExpr:
		fn := core.CalleeFunc(info, x)
		if fn == nil {
			return "dynamic call result", false
		}
		full := fn.FullName()
		if strings.HasPrefix(full, "google.golang.org/protobuf/reflect/protoreflect.ValueOf") {
			return "constructed by " + fn.Name(), true
		}
		switch full {
		case "(google.golang.org/protobuf/reflect/protoreflect.List).NewElement",
			"(google.golang.org/protobuf/reflect/protoreflect.Map).NewValue",
			"(google.golang.org/protobuf/reflect/protoreflect.Message).NewField",
			"(google.golang.org/protobuf/reflect/protoreflect.Message).Mutable",
			"(google.golang.org/protobuf/reflect/protoreflect.List).AppendMutable",
			"(google.golang.org/protobuf/reflect/protoreflect.Map).Mutable":
			return "fresh value from " + fn.Name() + " (always valid)", true
		}
		return vc.producerValid(fn, 0)
	case *ast.Ident:
		obj := info.Uses[x]
		if obj == nil {
			return "unresolved identifier", false
		}
		v, ok := obj.(*types.Var)
		if !ok {
			return "not a variable", false
		}
		// parameter: the obligation moves to the callers
		if idx, isParam := paramIndex(info, f, v); isParam {
			return vc.callersValid(f, idx)
		}
		// local: every assignment must be valid
		return vc.localValid(f, v, at)
	}
	return "unrecognised value expression " + es, false
}

func paramIndex(info *types.Info, f *ScopeFunc, v *types.Var) (int, bool) {
	i := 0
	for _, fld := range f.Type.Params.List {
		for _, n := range fld.Names {
			if info.Defs[n] == v {
				return i, true
			}
			i++
		}
		if len(fld.Names) == 0 {
			i++
		}
	}
	return 0, false
}

// localValid: all assignments to v (in f) assign a valid value, where the
// assignment `v, err := g(...)` counts when g never returns (zero, nil) and the
// use is reached only after an `err != nil` return.
func (vc *validCtx) localValid(f *ScopeFunc, v *types.Var, at ast.Node) (string, bool) {
	info := f.Pkg.TypesInfo
	var reasons []string
	n := 0
	okAll := true
	bad := ""
	f.InspectOwn(func(node ast.Node) bool {
		as, ok := node.(*ast.AssignStmt)
		if !ok {
			return true
		}
		for i, l := range as.Lhs {
			id, ok := l.(*ast.Ident)
			if !ok {
				continue
			}
			if info.Defs[id] != v && info.Uses[id] != v {
				continue
			}
			n++
			var rhs ast.Expr
			resIdx := 0
			if len(as.Rhs) == len(as.Lhs) {
				rhs = as.Rhs[i]
			} else if len(as.Rhs) == 1 {
				rhs, resIdx = as.Rhs[0], i
			}
			if c, ok := core.Unparen(rhs).(*ast.CallExpr); ok && len(as.Rhs) == 1 && len(as.Lhs) > 1 {
				fn := core.CalleeFunc(info, c)
				if fn == nil {
					okAll, bad = false, "assigned from a dynamic call"
					continue
				}
				why, ok := vc.producerValid(fn, resIdx)
				if !ok {
					okAll, bad = false, why
				} else {
					reasons = append(reasons, why)
				}
				continue
			}
			why, ok := vc.valid(f, rhs, as)
			if !ok {
				okAll, bad = false, why
			} else {
				reasons = append(reasons, why)
			}
		}
		return true
	})
	if n == 0 {
		return "variable is never assigned (zero Value)", false
	}
	if !okAll {
		return bad, false
	}
	return strings.Join(dedup(reasons), "; "), true
}

func dedup(in []string) []string {
	seen := map[string]bool{}
	var out []string
	for _, s := range in {
		if !seen[s] {
			seen[s] = true
			out = append(out, s)
		}
	}
	return out
}

// producerValid: function fn's result #idx is valid on every return whose
// error result is nil (E3 summary).
func (vc *validCtx) producerValid(fn *types.Func, idx int) (string, bool) {
	key := fmt.Sprintf("prod:%s#%d", fn.FullName(), idx)
	if vc.seen[key] {
		return "recursive producer " + fn.Name(), true // coinductive: other returns decide
	}
	vc.seen[key] = true
	defer delete(vc.seen, key)
	pf := funcByObj(vc.r, fn)
	if pf == nil {
		return "result of " + fn.FullName() + " (no source to summarise)", false
	}
	if vc.depth > 6 {
		return "summary depth exceeded", false
	}
	vc.depth++
	defer func() { vc.depth-- }()
	info := pf.Pkg.TypesInfo
	sig := fn.Type().(*types.Signature)
	errIdx := -1
	for i := 0; i < sig.Results().Len(); i++ {
		if sig.Results().At(i).Type().String() == "error" {
			errIdx = i
		}
	}
	okAll := true
	bad := ""
	pf.InspectOwn(func(n ast.Node) bool {
		ret, ok := n.(*ast.ReturnStmt)
		if !ok || !okAll {
			return true
		}
		if len(ret.Results) == 1 && sig.Results().Len() > 1 {
			// return g(...) forwarding a tuple
			if c, ok := ret.Results[0].(*ast.CallExpr); ok {
				if g := core.CalleeFunc(info, c); g != nil {
					if why, ok := vc.producerValid(g, idx); !ok {
						okAll, bad = false, why
					}
					return true
				}
			}
			okAll, bad = false, "tuple-forwarding return not understood"
			return true
		}
		if len(ret.Results) != sig.Results().Len() {
			okAll, bad = false, "naked return"
			return true
		}
		if errIdx >= 0 && !core.IsNilIdent(info, ret.Results[errIdx]) {
			return true // error return: value irrelevant
		}
		if why, ok := vc.valid(pf, ret.Results[idx], ret); !ok {
			okAll = false
			bad = fmt.Sprintf("%s returns a possibly invalid Value with a nil error at %s (%s)", fn.Name(), vc.r.P.Rel(ret.Pos()), why)
		}
		return true
	})
	if !okAll {
		return bad, false
	}
	return fn.Name() + " never returns the zero Value with a nil error", true
}

// callersValid: every call site of f (anywhere in the module) passes a valid
// value for parameter idx.
func (vc *validCtx) callersValid(f *ScopeFunc, idx int) (string, bool) {
	fd, ok := f.Node.(*ast.FuncDecl)
	if !ok {
		// a literal passed directly to a protobuf Range (or a helper that
		// forwards it to one) receives only populated, valid values
		lit, _ := f.Node.(*ast.FuncLit)
		if encl := core.EnclosingFunc(f.Pkg, f.Node.Pos()); encl != nil && lit != nil {
			info := f.Pkg.TypesInfo
			rangeCall := ""
			ast.Inspect(encl.Body, func(n ast.Node) bool {
				c, ok := n.(*ast.CallExpr)
				if !ok {
					return true
				}
				for _, a := range c.Args {
					if ast.Node(a) != ast.Node(lit) {
						continue
					}
					if s, ok := c.Fun.(*ast.SelectorExpr); ok && s.Sel.Name == "Range" {
						t := types.TypeString(info.TypeOf(s.X), nil)
						if strings.HasPrefix(t, "google.golang.org/protobuf/reflect/protoreflect.") {
							rangeCall = core.ExprStr(s.X) + ".Range"
						}
					} else if rangesFirstArg(vc.r, info, c) {
						rangeCall = core.ExprStr(c.Fun) + " (forwards to Range)"
					}
				}
				return rangeCall == ""
			})
			if rangeCall != "" {
				return "callback of " + rangeCall + ": protobuf passes only populated (valid) values", true
			}
		}
		return "parameter of a function literal", false
	}
	obj := f.Pkg.TypesInfo.Defs[fd.Name]
	key := fmt.Sprintf("callers:%s#%d", f.Name, idx)
	if vc.seen[key] {
		return "recursive", true
	}
	vc.seen[key] = true
	defer delete(vc.seen, key)
	if vc.depth > 6 {
		return "caller depth exceeded", false
	}
	vc.depth++
	defer func() { vc.depth-- }()
	ncalls := 0
	okAll := true
	bad := ""
	for path, pk := range vc.r.P.ByPkg {
		if !core.IsSource(path) || !okAll {
			continue
		}
		pk := pk
		core.AllFuncDecls(pk, func(cfd *ast.FuncDecl) {
			if !okAll {
				return
			}
			caller := &ScopeFunc{Name: strings.TrimPrefix(path, core.Module+"/") + "." + core.FuncName(cfd), Pkg: pk, Node: cfd, Body: cfd.Body, Type: cfd.Type}
			ast.Inspect(cfd.Body, func(n ast.Node) bool {
				c, ok := n.(*ast.CallExpr)
				if !ok || !okAll {
					return true
				}
				g := core.CalleeFunc(pk.TypesInfo, c)
				if g == nil || g.Origin() != obj {
					return true
				}
				ncalls++
				if idx >= len(c.Args) {
					okAll, bad = false, "variadic/short call"
					return true
				}
				// the argument may live inside a nested literal; FactsAt works on the enclosing body
				if why, ok := vc.valid(caller, c.Args[idx], c); !ok {
					okAll = false
					bad = fmt.Sprintf("caller %s passes a possibly invalid Value at %s (%s)", caller.Name, vc.r.P.Rel(c.Pos()), why)
				}
				return true
			})
		})
	}
	// method values / interface dispatch cannot be enumerated syntactically
	if _, isMethod := obj.(*types.Func); isMethod && obj.(*types.Func).Type().(*types.Signature).Recv() != nil {
		if implementsAnyModuleInterface(vc.r, obj.(*types.Func)) {
			return "method may be called through an interface: callers cannot be enumerated", false
		}
	}
	if !okAll {
		return bad, false
	}
	if ncalls == 0 {
		return "no static call sites found", false
	}
	return fmt.Sprintf("all %d call sites of %s pass a valid Value", ncalls, f.Name), true
}

// implementsAnyModuleInterface: the method's name and signature appear in an
// interface declared in the module that the receiver type implements.
func implementsAnyModuleInterface(r *core.Run, m *types.Func) bool {
	recv := m.Type().(*types.Signature).Recv().Type()
	for path, pk := range r.P.ByPkg {
		if !core.IsSource(path) || pk.Types == nil {
			continue
		}
		sc := pk.Types.Scope()
		for _, name := range sc.Names() {
			tn, ok := sc.Lookup(name).(*types.TypeName)
			if !ok {
				continue
			}
			it, ok := tn.Type().Underlying().(*types.Interface)
			if !ok {
				continue
			}
			has := false
			for i := 0; i < it.NumMethods(); i++ {
				if it.Method(i).Name() == m.Name() && (it.Method(i).Exported() || it.Method(i).Pkg() == m.Pkg()) {
					has = true
				}
			}
			if has && (types.Implements(recv, it) || types.Implements(types.NewPointer(recv), it)) {
				return true
			}
		}
	}
	return false
}

var _ = token.NoPos

// nonNegModArith recognises K - len(x) % M with constants K >= M-1, M > 0:
// len(x) % M lies in [0, M-1], so the difference is >= K-M+1 >= 0.
func nonNegModArith(info *types.Info, e ast.Expr) (string, bool) {
	b, ok := core.Unparen(e).(*ast.BinaryExpr)
	if !ok || b.Op != token.SUB {
		return "", false
	}
	k, ok := core.ConstInt(info, b.X)
	if !ok {
		return "", false
	}
	y := core.Unparen(b.Y)
	if id, isID := y.(*ast.Ident); isID {
		// `partial := len(val) % 4` named once
		if def := soleDefOf(info, id); def != nil {
			y = core.Unparen(def)
		}
	}
	m, ok := y.(*ast.BinaryExpr)
	if !ok || m.Op != token.REM {
		return "", false
	}
	if _, isLen := lenArg(info, m.X); !isLen {
		return "", false
	}
	mod, ok := core.ConstInt(info, m.Y)
	if !ok || mod <= 0 || k < mod-1 {
		return "", false
	}
	return fmt.Sprintf("%d - len(..) %% %d lies in [%d, %d]", k, mod, k-mod+1, k), true
}

// nonNegField: the expression is an unexported integer field of a package
// struct that can never be negative: every write to it in the package is an
// increment, an assignment or addition of a non-negative constant, or a
// decrement immediately followed by the clamp `if x.f < 0 { x.f = 0 }`; its
// address is never taken and no composite literal sets it to a negative
// constant. (The zero value is the initial value.)
func nonNegField(pk *packages.Package, e ast.Expr) (string, bool) {
	info := pk.TypesInfo
	sel, ok := core.Unparen(e).(*ast.SelectorExpr)
	if !ok {
		return "", false
	}
	fv, ok := info.Uses[sel.Sel].(*types.Var)
	if !ok || !fv.IsField() || fv.Exported() || fv.Pkg() != pk.Types {
		return "", false
	}
	if b, ok := fv.Type().Underlying().(*types.Basic); !ok || b.Info()&types.IsInteger == 0 {
		return "", false
	}
	isField := func(x ast.Expr) bool {
		s, ok := core.Unparen(x).(*ast.SelectorExpr)
		return ok && info.Uses[s.Sel] == fv
	}
	nonNegConst := func(x ast.Expr) bool {
		k, ok := core.ConstInt(info, x)
		return ok && k >= 0
	}
	// is st the clamp of the field?
	isClamp := func(st ast.Stmt) bool {
		is, ok := st.(*ast.IfStmt)
		if !ok || is.Init != nil || is.Else != nil || len(is.Body.List) != 1 {
			return false
		}
		c, ok := core.Unparen(is.Cond).(*ast.BinaryExpr)
		if !ok || c.Op != token.LSS || !isField(c.X) {
			return false
		}
		if k, ok := core.ConstInt(info, c.Y); !ok || k != 0 {
			return false
		}
		as, ok := is.Body.List[0].(*ast.AssignStmt)
		return ok && as.Tok == token.ASSIGN && len(as.Lhs) == 1 && isField(as.Lhs[0]) && nonNegConst(as.Rhs[0])
	}
	bad := ""
	writes := 0
	var scan func(list []ast.Stmt)
	checkStmt := func(st ast.Stmt, next ast.Stmt) {
		switch x := st.(type) {
		case *ast.IncDecStmt:
			if !isField(x.X) {
				return
			}
			writes++
			if x.Tok == token.DEC && (next == nil || !isClamp(next)) {
				bad = "decrement without the clamp to 0 right after it"
			}
		case *ast.AssignStmt:
			for i, l := range x.Lhs {
				if !isField(l) {
					continue
				}
				writes++
				switch {
				case len(x.Rhs) != len(x.Lhs):
					bad = "multi-value assignment"
				case (x.Tok == token.ASSIGN || x.Tok == token.ADD_ASSIGN) && nonNegConst(x.Rhs[i]):
				case x.Tok == token.SUB_ASSIGN && next != nil && isClamp(next):
				default:
					bad = "assignment " + core.ExprStr(l) + " " + x.Tok.String() + " " + core.ExprStr(x.Rhs[i])
				}
			}
		}
	}
	scan = func(list []ast.Stmt) {
		for i, st := range list {
			var next ast.Stmt
			if i+1 < len(list) {
				next = list[i+1]
			}
			checkStmt(st, next)
		}
	}
	core.AllFuncDecls(pk, func(fd *ast.FuncDecl) {
		if fd.Body == nil {
			return
		}
		ast.Inspect(fd.Body, func(n ast.Node) bool {
			switch x := n.(type) {
			case *ast.BlockStmt:
				scan(x.List)
			case *ast.CaseClause:
				scan(x.Body)
			case *ast.CommClause:
				scan(x.Body)
			case *ast.IfStmt:
				if x.Init != nil {
					checkStmt(x.Init, nil)
				}
			case *ast.ForStmt:
				if x.Init != nil {
					checkStmt(x.Init, nil)
				}
				if x.Post != nil {
					checkStmt(x.Post, nil)
				}
			case *ast.UnaryExpr:
				if x.Op == token.AND && isField(x.X) {
					bad = "its address is taken"
				}
			case *ast.KeyValueExpr:
				if id, ok := x.Key.(*ast.Ident); ok && info.Uses[id] == fv && !nonNegConst(x.Value) {
					bad = "composite literal sets it to " + core.ExprStr(x.Value)
				}
			}
			return true
		})
	})
	if bad != "" {
		return "", false
	}
	return fmt.Sprintf("field %s is never negative: all %d write(s) in the package are increments, non-negative constants, or a decrement clamped to 0 in the next statement; its address is not taken", fv.Name(), writes), true
}

// soleDefOf: the initialiser of a local that is defined once (`x := e`, also as the init of an if
// or switch) and never assigned again.
func soleDefOf(info *types.Info, id *ast.Ident) ast.Expr {
	obj := info.ObjectOf(id)
	if obj == nil || core.Current == nil {
		return nil
	}
	fd := core.Current.EnclosingDecl(obj.Pos())
	if fd == nil || fd.Body == nil {
		return nil
	}
	var def ast.Expr
	n := 0
	ast.Inspect(fd.Body, func(nd ast.Node) bool {
		switch x := nd.(type) {
		case *ast.AssignStmt:
			for i, l := range x.Lhs {
				if lid, ok := l.(*ast.Ident); ok && info.ObjectOf(lid) == obj {
					n++
					if len(x.Lhs) == len(x.Rhs) {
						def = x.Rhs[i]
					}
				}
			}
		case *ast.IncDecStmt:
			if lid, ok := x.X.(*ast.Ident); ok && info.ObjectOf(lid) == obj {
				n++
			}
		case *ast.UnaryExpr:
			if lid, ok := x.X.(*ast.Ident); ok && x.Op == token.AND && info.ObjectOf(lid) == obj {
				n++
			}
		}
		return true
	})
	if n != 1 {
		return nil
	}
	return def
}
