package rules

import (
	"bytes"
	"fmt"
	"go/ast"
	"go/printer"
	"go/scanner"
	"go/token"
	"go/types"
	"reflect"
	"strings"

	"golang.org/x/tools/go/packages"

	"j5verif/checker/core"
)

// canon renders a syntax tree as a layout-independent token sequence, without
// comments, with every identifier that is declared inside the function
// (parameters, results, locals, labels) replaced by a positional name — so
// that renaming a local, re-wrapping a line or adding a blank line in the copy
// (or upstream) is not a difference — and with calls of straight-line helpers
// of the same package inlined: `x = h(a, b)` where h's body is a list of simple
// statements ending in `return e` is compared as that list with h's parameters
// replaced by the arguments and `x = e` for the return. Identifiers declared
// elsewhere (package functions, imported names, builtins, fields) keep their
// names.
func canon(pk *packages.Package, fd *ast.FuncDecl, n ast.Node) string {
	info := pk.TypesInfo
	// ---- inline straight-line helpers (temporarily, restored before returning)
	alias := map[*ast.Ident]ast.Expr{}    // use of a helper parameter (in an inlined copy of the helper's body) → argument
	origOf := map[*ast.Ident]*ast.Ident{} // identifier of an inlined copy → the identifier it was copied from
	type saved struct {
		list *[]ast.Stmt
		orig []ast.Stmt
	}
	var undo []saved
	inlinable := func(st ast.Stmt) []ast.Stmt {
		as, ok := st.(*ast.AssignStmt)
		if !ok || len(as.Lhs) != 1 || len(as.Rhs) != 1 || (as.Tok != token.ASSIGN && as.Tok != token.DEFINE) {
			return nil
		}
		call, ok := core.Unparen(as.Rhs[0]).(*ast.CallExpr)
		if !ok {
			return nil
		}
		fn := core.CalleeFunc(info, call)
		if fn == nil || fn.Pkg() != pk.Types || fn.Type().(*types.Signature).Recv() != nil {
			return nil
		}
		hd := core.DeclOf(pk, fn.Origin())
		if hd == nil || hd.Body == nil || hd == fd || len(hd.Body.List) == 0 {
			return nil
		}
		var params []types.Object
		for _, f := range hd.Type.Params.List {
			if len(f.Names) == 0 {
				return nil
			}
			for _, nm := range f.Names {
				params = append(params, info.Defs[nm])
			}
		}
		if len(params) != len(call.Args) {
			return nil
		}
		for _, a := range call.Args {
			switch x := core.Unparen(a).(type) {
			case *ast.Ident, *ast.BasicLit:
			default:
				if tv, ok := info.Types[x]; !ok || tv.Value == nil {
					return nil
				}
			}
		}
		last := len(hd.Body.List) - 1
		ret, ok := hd.Body.List[last].(*ast.ReturnStmt)
		if !ok || len(ret.Results) != 1 {
			return nil
		}
		for _, hs := range hd.Body.List[:last] {
			switch hs.(type) {
			case *ast.AssignStmt, *ast.ExprStmt, *ast.IncDecStmt:
			default:
				return nil
			}
		}
		argOf := map[types.Object]ast.Expr{}
		for i, p := range params {
			argOf[p] = core.Unparen(call.Args[i])
		}
		// a private copy of the helper's body for this call site
		copyOf := func(n ast.Node) ast.Node {
			return cloneAST(n, func(orig, cp *ast.Ident) {
				origOf[cp] = orig
				o := info.Uses[orig]
				if o == nil {
					o = info.Defs[orig]
				}
				if a, ok := argOf[o]; ok {
					alias[cp] = a
				}
			})
		}
		var out []ast.Stmt
		for _, hs := range hd.Body.List[:last] {
			out = append(out, copyOf(hs).(ast.Stmt))
		}
		return append(out, &ast.AssignStmt{Lhs: as.Lhs, Tok: as.Tok, Rhs: []ast.Expr{copyOf(ret.Results[0]).(ast.Expr)}})
	}
	spliceList := func(list *[]ast.Stmt) {
		var out []ast.Stmt
		changed := false
		for _, st := range *list {
			if repl := inlinable(st); repl != nil {
				out = append(out, repl...)
				changed = true
			} else {
				out = append(out, st)
			}
		}
		if changed {
			undo = append(undo, saved{list, *list})
			*list = out
		}
	}
	ast.Inspect(n, func(x ast.Node) bool {
		switch b := x.(type) {
		case *ast.BlockStmt:
			spliceList(&b.List)
		case *ast.CaseClause:
			spliceList(&b.Body)
		case *ast.CommClause:
			spliceList(&b.Body)
		}
		return true
	})
	// ---- positional names
	names := map[types.Object]string{}
	local := func(o types.Object) bool {
		return o != nil && o.Pos().IsValid() && o.Parent() != nil && o.Parent() != pk.Types.Scope() && o.Parent() != types.Universe
	}
	old := map[*ast.Ident]string{}
	var nameOf func(id *ast.Ident, depth int) (string, bool)
	nameOf = func(id *ast.Ident, depth int) (string, bool) {
		if a, ok := alias[id]; ok && depth < 4 {
			switch y := a.(type) {
			case *ast.Ident:
				if s, ok := nameOf(y, depth+1); ok {
					return s, true
				}
				return y.Name, true
			case *ast.BasicLit:
				return y.Value, true
			default:
				return types.ExprString(a), true
			}
		}
		if o, ok := origOf[id]; ok {
			id = o
		}
		o := info.Defs[id]
		if o == nil {
			o = info.Uses[id]
		}
		if fn, isFn := o.(*types.Func); isFn {
			if old := core.RecordedName(fn); old != fn.Name() {
				return old, true
			}
			return "", false
		}
		if _, isVar := o.(*types.Var); !isVar {
			if _, isLabel := o.(*types.Label); !isLabel {
				return "", false
			}
		}
		if v, ok := o.(*types.Var); ok && v.IsField() {
			return "", false
		}
		if !local(o) {
			return "", false
		}
		if _, seen := names[o]; !seen {
			names[o] = fmt.Sprintf("v%d", len(names))
		}
		return names[o], true
	}
	ast.Inspect(n, func(x ast.Node) bool { // numbered by first appearance in what is printed
		id, ok := x.(*ast.Ident)
		if !ok || id.Name == "_" {
			return true
		}
		if nm, ok := nameOf(id, 0); ok {
			if _, done := old[id]; !done {
				old[id] = id.Name
			}
			id.Name = nm
		}
		return true
	})
	var b bytes.Buffer
	(&printer.Config{Mode: printer.RawFormat}).Fprint(&b, token.NewFileSet(), n)
	for id, nm := range old {
		id.Name = nm
	}
	for i := len(undo) - 1; i >= 0; i-- {
		*undo[i].list = undo[i].orig
	}
	// ---- token sequence
	var sc scanner.Scanner
	fset := token.NewFileSet()
	src := b.Bytes()
	sc.Init(fset.AddFile("", fset.Base(), len(src)), src, nil, 0)
	var toks []string
	for {
		_, tok, lit := sc.Scan()
		if tok == token.EOF {
			break
		}
		switch {
		case tok == token.SEMICOLON:
			// automatic and explicit semicolons alike; one before a closing brace is layout
			toks = append(toks, ";")
		case lit != "":
			toks = append(toks, lit)
		default:
			toks = append(toks, tok.String())
		}
	}
	// `; }` and `}` are the same program
	var out []string
	for i, t := range toks {
		if t == ";" && i+1 < len(toks) && (toks[i+1] == "}" || toks[i+1] == ")") {
			continue
		}
		if t == ";" && len(out) > 0 && out[len(out)-1] == ";" {
			continue
		}
		out = append(out, t)
	}
	for len(out) > 0 && out[len(out)-1] == ";" {
		out = out[:len(out)-1]
	}
	return strings.Join(out, " ")
}

// VerbatimCopy (R-CONST/copy): a function the repository declares to be a
// copy of a library function (because the original is unexported) is compared,
// on every run, with the original as loaded from the module cache: same
// parameters, results and body, ignoring comments, positions, layout and the
// names of parameters and locals. The
// correctness argument for such a function is "it is the library's"; any
// divergence voids it.
func VerbatimCopy(r *core.Run, rel, fn, upstreamPkg, upstreamFn string) {
	r.Rule("R-CONST/copy", "a function kept as a verbatim copy of an unexported library function has the same signature and body as the original in the module cache (compared as syntax trees printed without comments); the library's behaviour is then the copy's behaviour")
	fd, pk := r.P.FuncDecl(rel, fn)
	o := r.Add("R-CONST/copy", fmt.Sprintf("%s.%s ≡ %s.%s", rel, fn, upstreamPkg, upstreamFn), token.NoPos, "verbatim copy of "+upstreamPkg+"."+upstreamFn)
	if fd == nil {
		r.Fatal("anchor: %s.%s not found", rel, fn)
		return
	}
	o.Pos = r.P.Rel(fd.Pos())
	up := r.P.ByPkg[upstreamPkg]
	if up == nil || len(up.Syntax) == 0 {
		r.Fatal("anchor: upstream package %s is not loaded with syntax", upstreamPkg)
		return
	}
	var ufd *ast.FuncDecl
	for _, f := range up.Syntax {
		for _, d := range f.Decls {
			if x, ok := d.(*ast.FuncDecl); ok && x.Name.Name == upstreamFn && x.Recv == nil {
				ufd = x
			}
		}
	}
	if ufd == nil {
		r.Fatal("anchor: %s.%s not found upstream", upstreamPkg, upstreamFn)
		return
	}
	render := func(p *packages.Package, d *ast.FuncDecl) string {
		c := *d
		c.Doc = nil
		c.Name = ast.NewIdent("f")
		// comments are not attached to the node itself, so printing the node alone drops them
		return canon(p, d, &c)
	}
	a, b := render(pk, fd), render(up, ufd)
	if a == b {
		o.Auto("identical to the original (%d bytes of canonical syntax)", len(a))
		return
	}
	diff := firstDiff(a, b)
	o.Fail("the copy differs from the library original (%s): its behaviour is no longer vouched for by the library", diff)
}

// VerbatimLoop (R-CONST/copy, loop form): as VerbatimCopy, for a function that
// was adapted from the library with a different signature (a string result
// instead of an append-to buffer, a flag fixed to a constant): the part that is
// the library's — the top-level loop that does the work — is compared with the
// original's loop. The surrounding prologue and epilogue are the adaptation and
// are not compared.
func VerbatimLoop(r *core.Run, rel, fn, upstreamPkg, upstreamFn string) {
	r.Rule("R-CONST/copy", "a function kept as a verbatim copy of an unexported library function has the same signature and body as the original in the module cache (compared as syntax trees printed without comments); the library's behaviour is then the copy's behaviour")
	fd, pk := r.P.FuncDecl(rel, fn)
	o := r.Add("R-CONST/copy", fmt.Sprintf("%s.%s loop ≡ %s.%s loop", rel, fn, upstreamPkg, upstreamFn), token.NoPos, "main loop adapted verbatim from "+upstreamPkg+"."+upstreamFn)
	if fd == nil {
		r.Fatal("anchor: %s.%s not found", rel, fn)
		return
	}
	o.Pos = r.P.Rel(fd.Pos())
	up := r.P.ByPkg[upstreamPkg]
	if up == nil || len(up.Syntax) == 0 {
		r.Fatal("anchor: upstream package %s is not loaded with syntax", upstreamPkg)
		return
	}
	var ufd *ast.FuncDecl
	for _, f := range up.Syntax {
		for _, d := range f.Decls {
			if x, ok := d.(*ast.FuncDecl); ok && x.Name.Name == upstreamFn && x.Recv == nil {
				ufd = x
			}
		}
	}
	if ufd == nil {
		r.Fatal("anchor: %s.%s not found upstream", upstreamPkg, upstreamFn)
		return
	}
	loop := func(p *packages.Package, d *ast.FuncDecl) string {
		var out []string
		for _, s := range d.Body.List {
			switch s.(type) {
			case *ast.ForStmt, *ast.RangeStmt:
				out = append(out, canon(p, d, s))
			}
		}
		if len(out) != 1 {
			return ""
		}
		return out[0]
	}
	a, b := loop(pk, fd), loop(up, ufd)
	switch {
	case b == "":
		r.Fatal("anchor: %s.%s has no single top-level loop", upstreamPkg, upstreamFn)
	case a == "":
		o.Fail("the adapted copy no longer has a single top-level loop to compare with the library original")
	case a == b:
		o.Auto("loop identical to the original's (%d bytes of canonical syntax)", len(a))
	default:
		diff := firstDiff(a, b)
		o.Fail("the adapted loop differs from the library original (%s): its behaviour is no longer vouched for by the library", diff)
	}
}

// firstDiff names the first statement-sized piece in which two canonical token
// sequences differ.
func firstDiff(a, b string) string {
	split := func(s string) []string {
		return strings.FieldsFunc(strings.NewReplacer(" ; ", "\x00", " { ", " {\x00", " } ", "\x00} ").Replace(s), func(r rune) bool { return r == 0 })
	}
	la, lb := split(a), split(b)
	for i := 0; i < len(la) && i < len(lb); i++ {
		if la[i] != lb[i] {
			return fmt.Sprintf("copy: %q / original: %q", strings.TrimSpace(la[i]), strings.TrimSpace(lb[i]))
		}
	}
	return fmt.Sprintf("%d vs %d statements", len(la), len(lb))
}

// cloneAST makes a deep copy of a syntax tree (go/ast nodes only; positions are
// kept, resolution objects dropped) and reports every identifier copied.
func cloneAST(n ast.Node, ident func(orig, cp *ast.Ident)) ast.Node {
	var clone func(v reflect.Value) reflect.Value
	clone = func(v reflect.Value) reflect.Value {
		switch v.Kind() {
		case reflect.Interface:
			if v.IsNil() {
				return v
			}
			c := clone(v.Elem())
			out := reflect.New(v.Type()).Elem()
			out.Set(c)
			return out
		case reflect.Ptr:
			if v.IsNil() {
				return v
			}
			switch v.Interface().(type) {
			case *ast.Object, *ast.Scope:
				return reflect.Zero(v.Type())
			}
			if v.Elem().Kind() != reflect.Struct {
				return v
			}
			cp := reflect.New(v.Elem().Type())
			for i := 0; i < v.Elem().NumField(); i++ {
				if cp.Elem().Field(i).CanSet() {
					cp.Elem().Field(i).Set(clone(v.Elem().Field(i)))
				}
			}
			if id, ok := v.Interface().(*ast.Ident); ok {
				ident(id, cp.Interface().(*ast.Ident))
			}
			return cp
		case reflect.Slice:
			if v.IsNil() {
				return v
			}
			cp := reflect.MakeSlice(v.Type(), v.Len(), v.Len())
			for i := 0; i < v.Len(); i++ {
				cp.Index(i).Set(clone(v.Index(i)))
			}
			return cp
		case reflect.Struct:
			cp := reflect.New(v.Type()).Elem()
			for i := 0; i < v.NumField(); i++ {
				if cp.Field(i).CanSet() {
					cp.Field(i).Set(clone(v.Field(i)))
				}
			}
			return cp
		}
		return v
	}
	return clone(reflect.ValueOf(n)).Interface().(ast.Node)
}
