package rules

import (
	"bytes"
	"fmt"
	"go/ast"
	"go/printer"
	"go/token"

	"j5verif/checker/core"
)

// VerbatimCopy (R-CONST/copy): a function the repository declares to be a
// copy of a library function (because the original is unexported) is compared,
// on every run, with the original as loaded from the module cache: same
// parameters, results and body, ignoring comments, positions and layout. The
// correctness argument for such a function is "it is the library's"; any
// divergence voids it.
func VerbatimCopy(r *core.Run, rel, fn, upstreamPkg, upstreamFn string) {
	r.Rule("R-CONST/copy", "a function kept as a verbatim copy of an unexported library function has the same signature and body as the original in the module cache (compared as syntax trees printed without comments); the library's behaviour is then the copy's behaviour")
	fd, _ := r.P.FuncDecl(rel, fn)
	o := r.Add("R-CONST/copy", fmt.Sprintf("%s.%s ≡ %s.%s", rel, fn, upstreamPkg, upstreamFn), token.NoPos, "verbatim copy of "+upstreamPkg+"."+upstreamFn)
	if fd == nil {
		r.Fatal("anchor: %s.%s not found", rel, fn)
		return
	}
	o.Pos = r.P.Rel(fd.Pos())
	up := r.P.ByPkg[upstreamPkg]
	if up == nil || len(up.Syntax) == 0 {
		r.Fatal("anchor: upstream package %s is not loaded with syntax", upstreamPkg)
		return
	}
	var ufd *ast.FuncDecl
	for _, f := range up.Syntax {
		for _, d := range f.Decls {
			if x, ok := d.(*ast.FuncDecl); ok && x.Name.Name == upstreamFn && x.Recv == nil {
				ufd = x
			}
		}
	}
	if ufd == nil {
		r.Fatal("anchor: %s.%s not found upstream", upstreamPkg, upstreamFn)
		return
	}
	render := func(d *ast.FuncDecl) string {
		c := *d
		c.Doc = nil
		c.Name = ast.NewIdent("f")
		var b bytes.Buffer
		// comments are not attached to the node itself, so printing the node alone drops them
		(&printer.Config{Mode: printer.RawFormat}).Fprint(&b, token.NewFileSet(), &c)
		return b.String()
	}
	a, b := render(fd), render(ufd)
	if a == b {
		o.Auto("identical to the original (%d bytes of canonical syntax)", len(a))
		return
	}
	// first differing line, for the report
	la, lb := bytes.Split([]byte(a), []byte("\n")), bytes.Split([]byte(b), []byte("\n"))
	diff := ""
	for i := 0; i < len(la) && i < len(lb); i++ {
		if !bytes.Equal(la[i], lb[i]) {
			diff = fmt.Sprintf("copy: %q / original: %q", bytes.TrimSpace(la[i]), bytes.TrimSpace(lb[i]))
			break
		}
	}
	if diff == "" {
		diff = fmt.Sprintf("%d vs %d lines", len(la), len(lb))
	}
	o.Fail("the copy differs from the library original (%s): its behaviour is no longer vouched for by the library", diff)
}

// VerbatimLoop (R-CONST/copy, loop form): as VerbatimCopy, for a function that
// was adapted from the library with a different signature (a string result
// instead of an append-to buffer, a flag fixed to a constant): the part that is
// the library's — the top-level loop that does the work — is compared with the
// original's loop. The surrounding prologue and epilogue are the adaptation and
// are not compared.
func VerbatimLoop(r *core.Run, rel, fn, upstreamPkg, upstreamFn string) {
	r.Rule("R-CONST/copy", "a function kept as a verbatim copy of an unexported library function has the same signature and body as the original in the module cache (compared as syntax trees printed without comments); the library's behaviour is then the copy's behaviour")
	fd, _ := r.P.FuncDecl(rel, fn)
	o := r.Add("R-CONST/copy", fmt.Sprintf("%s.%s loop ≡ %s.%s loop", rel, fn, upstreamPkg, upstreamFn), token.NoPos, "main loop adapted verbatim from "+upstreamPkg+"."+upstreamFn)
	if fd == nil {
		r.Fatal("anchor: %s.%s not found", rel, fn)
		return
	}
	o.Pos = r.P.Rel(fd.Pos())
	up := r.P.ByPkg[upstreamPkg]
	if up == nil || len(up.Syntax) == 0 {
		r.Fatal("anchor: upstream package %s is not loaded with syntax", upstreamPkg)
		return
	}
	var ufd *ast.FuncDecl
	for _, f := range up.Syntax {
		for _, d := range f.Decls {
			if x, ok := d.(*ast.FuncDecl); ok && x.Name.Name == upstreamFn && x.Recv == nil {
				ufd = x
			}
		}
	}
	if ufd == nil {
		r.Fatal("anchor: %s.%s not found upstream", upstreamPkg, upstreamFn)
		return
	}
	loop := func(d *ast.FuncDecl) string {
		var out []string
		for _, s := range d.Body.List {
			switch s.(type) {
			case *ast.ForStmt, *ast.RangeStmt:
				var b bytes.Buffer
				(&printer.Config{Mode: printer.RawFormat}).Fprint(&b, token.NewFileSet(), s)
				out = append(out, b.String())
			}
		}
		if len(out) != 1 {
			return ""
		}
		return out[0]
	}
	a, b := loop(fd), loop(ufd)
	switch {
	case b == "":
		r.Fatal("anchor: %s.%s has no single top-level loop", upstreamPkg, upstreamFn)
	case a == "":
		o.Fail("the adapted copy no longer has a single top-level loop to compare with the library original")
	case a == b:
		o.Auto("loop identical to the original's (%d bytes of canonical syntax)", len(a))
	default:
		la, lb := bytes.Split([]byte(a), []byte("\n")), bytes.Split([]byte(b), []byte("\n"))
		diff := fmt.Sprintf("%d vs %d lines", len(la), len(lb))
		for i := 0; i < len(la) && i < len(lb); i++ {
			if !bytes.Equal(la[i], lb[i]) {
				diff = fmt.Sprintf("copy: %q / original: %q", bytes.TrimSpace(la[i]), bytes.TrimSpace(lb[i]))
				break
			}
		}
		o.Fail("the adapted loop differs from the library original (%s): its behaviour is no longer vouched for by the library", diff)
	}
}
