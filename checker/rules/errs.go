package rules

import (
	"fmt"
	"go/ast"
	"go/token"
	"go/types"
	"golang.org/x/tools/go/cfg"
	"strings"

	"j5verif/checker/core"
)

func isErrorType(t types.Type) bool {
	return t != nil && types.TypeString(t, nil) == "error"
}

// errResultIndex returns the index of the (last) error result of a function type.
func errResultIndex(info *types.Info, ft *ast.FuncType) int {
	if ft.Results == nil {
		return -1
	}
	idx, i := -1, 0
	for _, f := range ft.Results.List {
		n := len(f.Names)
		if n == 0 {
			n = 1
		}
		for k := 0; k < n; k++ {
			if isErrorType(info.TypeOf(f.Type)) {
				idx = i
			}
			i++
		}
	}
	return idx
}

// ErrorDiscipline arms R-ERR E1 (swallowed error), E2 (dropped error result)
// and E3 (zero protoreflect.Value with nil error outside a nil-input guard)
// over the scope.
func ErrorDiscipline(r *core.Run, sc *Scope, table string) {
	r.Rule("R-ERR/E1", "a return whose error result is the constant nil inside `if err != nil { ... }` (err of type error) swallows the failure: the caller continues with a partial result")
	r.Rule("R-ERR/E2", "a call whose result list contains an error must not be used as a statement or have that result assigned to _ (accepted idioms: writes to bytes.Buffer/strings.Builder/hash.Hash, fmt.Fprint* to those, deferred Close)")
	r.Rule("R-ERR/E3", "in a function returning (protoreflect.Value, error), the zero Value with a nil error may be returned only under a nil-input guard (case nil, == nil, IsNil()): anywhere else it silently clears the field instead of rejecting the input")
	for _, f := range sc.Funcs {
		info := f.Pkg.TypesInfo
		errIdx := errResultIndex(info, f.Type)
		returnsPV := false
		if f.Type.Results != nil && len(f.Type.Results.List) >= 1 {
			if t := info.TypeOf(f.Type.Results.List[0].Type); t != nil && types.TypeString(t, nil) == pvType {
				returnsPV = errIdx == 1
			}
		}
		f.InspectOwn(func(n ast.Node) bool {
			switch x := n.(type) {
			case *ast.ReturnStmt:
				if errIdx < 0 || len(x.Results) <= errIdx || !core.IsNilIdent(info, x.Results[errIdx]) {
					return true
				}
				// E1: inside if <e> != nil with e of type error
				if ev, ifs := enclosingErrCheck(info, f, x); ev != "" {
					o := r.Add("R-ERR/E1", siteKey(f, fmt.Sprintf("return nil error under %s != nil", ev)), x.Pos(), fmt.Sprintf("return with nil error inside `if %s != nil`", ev))
					_ = ifs
					if !r.Table(table, o) {
						o.Fail("the error %s is discarded and success is reported", ev)
					}
				}
				// E3
				if returnsPV && isZeroPV(info, f, x.Results[0]) {
					o := r.Add("R-ERR/E3", siteKey(f, "zero Value, nil error"), x.Pos(), "returns the zero protoreflect.Value with a nil error")
					if why, ok := underNilGuard(info, f, x); ok {
						o.Auto("%s", why)
					} else if !r.Table(table, o) {
						o.Fail("not under a nil-input guard: the input is silently dropped (the field is cleared) instead of being rejected")
					}
				}
			case *ast.ExprStmt:
				c, ok := x.X.(*ast.CallExpr)
				if !ok {
					return true
				}
				checkDropped(r, f, c, -1, table)
			case *ast.AssignStmt:
				if len(x.Rhs) == 1 {
					if c, ok := x.Rhs[0].(*ast.CallExpr); ok {
						for i, l := range x.Lhs {
							if id, ok := l.(*ast.Ident); ok && id.Name == "_" {
								checkDropped(r, f, c, i, table)
							}
						}
					}
				}
			}
			return true
		})
	}
}

// enclosingErrCheck: the node is inside the body of `if e != nil` (not the
// else) where e has type error; returns e's printed form.
func enclosingErrCheck(info *types.Info, f *ScopeFunc, n ast.Node) (string, *ast.IfStmt) {
	path := core.PathTo(f.Body, n)
	for i := len(path) - 1; i > 0; i-- {
		ifs, ok := path[i-1].(*ast.IfStmt)
		if !ok || path[i] != ast.Node(ifs.Body) {
			continue
		}
		var found string
		var walk func(e ast.Expr)
		walk = func(e ast.Expr) {
			b, ok := core.Unparen(e).(*ast.BinaryExpr)
			if !ok {
				return
			}
			if b.Op == token.LAND {
				walk(b.X)
				walk(b.Y)
				return
			}
			if b.Op == token.NEQ && core.IsNilIdent(info, b.Y) && isErrorType(info.TypeOf(b.X)) {
				found = core.ExprStr(b.X)
			}
		}
		walk(ifs.Cond)
		if found != "" {
			return found, ifs
		}
	}
	return "", nil
}

func isZeroPV(info *types.Info, f *ScopeFunc, e ast.Expr) bool {
	e = core.Unparen(e)
	if cl, ok := e.(*ast.CompositeLit); ok && len(cl.Elts) == 0 {
		return true
	}
	if id, ok := e.(*ast.Ident); ok {
		v, ok := info.Uses[id].(*types.Var)
		if !ok {
			return false
		}
		// a local that is never assigned (var pv protoreflect.Value)
		assigned := false
		ast.Inspect(f.Body, func(n ast.Node) bool {
			if as, ok := n.(*ast.AssignStmt); ok {
				for _, l := range as.Lhs {
					if li, ok := l.(*ast.Ident); ok && (info.Uses[li] == v || info.Defs[li] == v) {
						// pv = X counts unless it is the declaration without value
						assigned = true
					}
				}
			}
			return true
		})
		if !assigned {
			return true
		}
		// assigned somewhere: zero on this path only if no assignment dominates; be conservative
		return false
	}
	return false
}

// underNilGuard: the return sits in `case nil:` of a type switch, or inside an
// if whose condition tests `== nil` / `.IsNil()`.
func underNilGuard(info *types.Info, f *ScopeFunc, n ast.Node) (string, bool) {
	// reached only past `if v != nil { …; return }`: v is nil here
	if facts := FactsAt(info, f.Body, n); len(facts.IsNil) > 0 {
		for e := range facts.IsNil {
			return "reached only where " + e + " == nil", true
		}
	}
	path := core.PathTo(f.Body, n)
	for i := len(path) - 1; i > 0; i-- {
		switch p := path[i-1].(type) {
		case *ast.CaseClause:
			for _, e := range p.List {
				if core.IsNilIdent(info, e) {
					return "inside `case nil:`", true
				}
			}
		case *ast.IfStmt:
			if path[i] != ast.Node(p.Body) {
				continue
			}
			s := core.ExprStr(p.Cond)
			if b, ok := core.Unparen(p.Cond).(*ast.BinaryExpr); ok && b.Op == token.EQL && core.IsNilIdent(info, b.Y) {
				return "inside `if " + s + "`", true
			}
			if strings.HasSuffix(s, ".IsNil()") {
				return "inside `if " + s + "`", true
			}
			// a flag computed by a helper that sets it only under its own nil guard
			if id, ok := core.Unparen(p.Cond).(*ast.Ident); ok {
				if why, ok := nilFlagFromHelper(info, f, id, false); ok {
					return why, true
				}
			}
			// the same with the flag the other way round: `if !isSet { return zero, nil }`
			if u, ok := core.Unparen(p.Cond).(*ast.UnaryExpr); ok && u.Op == token.NOT {
				if id, ok := core.Unparen(u.X).(*ast.Ident); ok {
					if why, ok := nilFlagFromHelper(info, f, id, true); ok {
						return why, true
					}
				}
			}
		}
	}
	return "", false
}

// nilFlagFromHelper: `v, isNil, err := helper(x)` where helper returns true in
// that position only from return statements that are themselves under a
// nil-input guard.
func nilFlagFromHelper(info *types.Info, f *ScopeFunc, id *ast.Ident, negated bool) (string, bool) {
	obj := info.Uses[id]
	var call *ast.CallExpr
	pos, defs := -1, 0
	ast.Inspect(f.Body, func(n ast.Node) bool {
		as, ok := n.(*ast.AssignStmt)
		if !ok || len(as.Rhs) != 1 {
			return true
		}
		for i, l := range as.Lhs {
			if li, ok := l.(*ast.Ident); ok && (info.Defs[li] == obj || info.Uses[li] == obj) {
				defs++
				if c, ok := core.Unparen(as.Rhs[0]).(*ast.CallExpr); ok {
					call, pos = c, i
				}
			}
		}
		return true
	})
	if defs != 1 || call == nil {
		return "", false
	}
	fn := core.CalleeFunc(info, call)
	if fn == nil || fn.Pkg() != f.Pkg.Types {
		return "", false
	}
	hd := core.DeclOf(f.Pkg, fn.Origin())
	if hd == nil || hd.Body == nil {
		return "", false
	}
	hf := &ScopeFunc{Pkg: f.Pkg, Node: hd, Body: hd.Body, Type: hd.Type, Name: hd.Name.Name}
	trues, guarded := 0, 0
	bad := false
	ast.Inspect(hd.Body, func(n ast.Node) bool {
		if _, isLit := n.(*ast.FuncLit); isLit {
			return false
		}
		ret, ok := n.(*ast.ReturnStmt)
		if !ok || pos >= len(ret.Results) {
			return true
		}
		tv, isConst := info.Types[ret.Results[pos]]
		if !isConst || tv.Value == nil {
			bad = true
			return true
		}
		want := "true"
		if negated {
			want = "false"
		}
		if tv.Value.String() == want {
			// a return that reports rejection through a final `ok bool` = false is the error
			// path, which the caller leaves before it looks at this flag
			if negated && pos != len(ret.Results)-1 {
				if ltv, has := info.Types[ret.Results[len(ret.Results)-1]]; has && ltv.Value != nil && ltv.Value.String() == "false" {
					return true
				}
			}
			trues++
			if _, ok := underNilGuard(info, hf, ret); ok {
				guarded++
			}
		}
		return true
	})
	if !bad && trues > 0 && trues == guarded {
		return "under `if " + id.Name + "`, a flag " + hd.Name.Name + " sets only under its own nil-input guard", true
	}
	return "", false
}

var droppedOK = map[string]bool{
	"(*bytes.Buffer).Write": true, "(*bytes.Buffer).WriteString": true, "(*bytes.Buffer).WriteByte": true, "(*bytes.Buffer).WriteRune": true,
	"(*strings.Builder).Write": true, "(*strings.Builder).WriteString": true, "(*strings.Builder).WriteByte": true, "(*strings.Builder).WriteRune": true,
	"(hash.Hash).Write": true, "(io.Writer).Write": false,
	"fmt.Print": true, "fmt.Printf": true, "fmt.Println": true,
	"log.Print": true, "log.Printf": true, "log.Println": true,
}

func checkDropped(r *core.Run, f *ScopeFunc, c *ast.CallExpr, assignedIdx int, table string) {
	info := f.Pkg.TypesInfo
	if core.IsConversion(info, c) {
		return
	}
	t := info.TypeOf(c)
	if t == nil {
		return
	}
	errAt := -1
	switch tt := t.(type) {
	case *types.Tuple:
		for i := 0; i < tt.Len(); i++ {
			if isErrorType(tt.At(i).Type()) {
				errAt = i
			}
		}
	default:
		if isErrorType(t) {
			errAt = 0
		}
	}
	if errAt < 0 || (assignedIdx >= 0 && assignedIdx != errAt) {
		return
	}
	name := core.CalleeName(info, c)
	if droppedOK[name] {
		return
	}
	if strings.HasPrefix(name, "fmt.Fprint") && len(c.Args) > 0 {
		at := types.TypeString(info.TypeOf(c.Args[0]), nil)
		if at == "*bytes.Buffer" || at == "*strings.Builder" {
			return
		}
	}
	if name == "" {
		name = core.ExprStr(c.Fun)
	}
	o := r.Add("R-ERR/E2", siteKey(f, "dropped error of "+shortName(name)), c.Pos(), "error result of "+shortName(name)+" is discarded")
	if !r.Table(table, o) {
		o.Fail("the call can fail and nothing looks at the error")
	}
}

func shortName(s string) string {
	return strings.ReplaceAll(s, core.Module+"/", "")
}

// RequiredGuard describes a check that must exist in a function.
type RequiredGuard struct {
	Rel, Func string
	What      string
	// Match receives the if statement (already known to end in a non-nil
	// error return) and the statement preceding it in its block (or nil) and
	// says whether it is the required guard.
	Match func(info *types.Info, ifs *ast.IfStmt, prev ast.Stmt) bool
	// TopLevel: the guard must be outside any function literal (i.e. run
	// after/around the callbacks, not inside them).
	TopLevel bool
}

// RequiredGuards arms R-ERR/E4.
func RequiredGuards(r *core.Run, guards []RequiredGuard) {
	r.Rule("R-ERR/E4", "checks that must exist: each listed function contains an if statement, matched structurally (types and operators, not text positions), whose taken arm returns a non-nil error; guards marked top-level must not live inside a callback literal (they must hold regardless of member order)")
	for _, g := range guards {
		fd, pk := r.P.FuncDecl(g.Rel, g.Func)
		if fd == nil {
			r.Fatal("anchor: %s.%s not found", g.Rel, g.Func)
			continue
		}
		info := pk.TypesInfo
		errIdx := errResultIndex(info, fd.Type)
		o := r.Add("R-ERR/E4", fmt.Sprintf("%s.%s | %s", g.Rel, g.Func, g.What), fd.Pos(), g.What)
		found := false
		var visit func(n ast.Node, inLit bool)
		visit = func(n ast.Node, inLit bool) {
			ast.Inspect(n, func(x ast.Node) bool {
				if x == nil || found {
					return false
				}
				if fl, ok := x.(*ast.FuncLit); ok && x != n {
					if !g.TopLevel {
						visit(fl.Body, true)
					}
					return false
				}
				var list []ast.Stmt
				switch b := x.(type) {
				case *ast.BlockStmt:
					list = b.List
				case *ast.CaseClause:
					list = b.Body
				default:
					return true
				}
				for i, st := range list {
					var prev ast.Stmt
					if i > 0 {
						prev = list[i-1]
					}
					// a switch clause is an if in another spelling
					if sw, ok := st.(*ast.SwitchStmt); ok {
						// `switch len(x) { case 0: … case 1: … default: <error> }`: the default arm is `len(x) > 1`
						if sw.Tag != nil {
							var maxCase ast.Expr
							var maxVal int64 = -1
							allConst := true
							var def *ast.CaseClause
							for _, cl := range sw.Body.List {
								cc := cl.(*ast.CaseClause)
								if cc.List == nil {
									def = cc
								}
								for _, ce := range cc.List {
									if k, isC := core.ConstInt(info, ce); isC {
										if k > maxVal {
											maxVal, maxCase = k, ce
										}
									} else {
										allConst = false
									}
								}
							}
							if def != nil && allConst && maxCase != nil {
								syn := &ast.IfStmt{If: def.Pos(), Cond: &ast.BinaryExpr{X: sw.Tag, Op: token.GTR, Y: maxCase}, Body: &ast.BlockStmt{Lbrace: def.Colon, List: def.Body, Rbrace: def.End()}}
								if bodyReturnsError(info, syn.Body, errIdx, inLit) && g.Match(info, syn, prev) {
									found = true
								}
							}
						}
						// the default arm of a tagged switch is taken when the tag differs from every case: `tag != a && tag != b …`
						if sw.Tag != nil {
							var def *ast.CaseClause
							var conj ast.Expr
							for _, cl := range sw.Body.List {
								cc := cl.(*ast.CaseClause)
								if cc.List == nil {
									def = cc
								}
								for _, ce := range cc.List {
									ne := ast.Expr(&ast.BinaryExpr{X: sw.Tag, Op: token.NEQ, Y: ce})
									if conj == nil {
										conj = ne
									} else {
										conj = &ast.BinaryExpr{X: conj, Op: token.LAND, Y: ne}
									}
								}
							}
							if def != nil && conj != nil {
								syn := &ast.IfStmt{If: def.Pos(), Cond: conj, Body: &ast.BlockStmt{Lbrace: def.Colon, List: def.Body, Rbrace: def.End()}}
								if bodyReturnsError(info, syn.Body, errIdx, inLit) && g.Match(info, syn, prev) {
									found = true
								}
							}
						}
						for _, cl := range sw.Body.List {
							cc := cl.(*ast.CaseClause)
							// guards nested in the clause are visited by the enclosing Inspect
							for _, ce := range cc.List {
								cond := ce
								if sw.Tag != nil {
									cond = &ast.BinaryExpr{X: sw.Tag, Op: token.EQL, Y: ce}
								}
								syn := &ast.IfStmt{If: cc.Pos(), Cond: cond, Body: &ast.BlockStmt{Lbrace: cc.Colon, List: cc.Body, Rbrace: cc.End()}}
								if sw.Init != nil {
									syn.Init = sw.Init
								}
								if bodyReturnsError(info, syn.Body, errIdx, inLit) && g.Match(info, syn, prev) {
									found = true
								}
							}
						}
						continue
					}
					ifs, ok := st.(*ast.IfStmt)
					if !ok {
						continue
					}
					// inverted spelling: `if ok-condition { return <no error> }` directly followed by `return <error>`
					if ifs.Else == nil && i+1 < len(list) && !bodyReturnsError(info, ifs.Body, errIdx, inLit) && endsInReturn(ifs.Body) {
						if ret, isRet := list[i+1].(*ast.ReturnStmt); isRet {
							syn := &ast.IfStmt{If: ret.Pos(), Cond: Negate(ifs.Cond), Body: &ast.BlockStmt{Lbrace: ret.Pos(), List: []ast.Stmt{ret}, Rbrace: ret.End()}}
							if bodyReturnsError(info, syn.Body, errIdx, inLit) && g.Match(info, syn, prev) {
								found = true
							}
						}
					}
					// the statement itself and every else-if of its chain
					for cur := ifs; cur != nil; {
						if bodyReturnsError(info, cur.Body, errIdx, inLit) && g.Match(info, cur, prev) {
							found = true
						}
						next, _ := cur.Else.(*ast.IfStmt)
						cur = next
					}
				}
				return true
			})
		}
		// the function itself and the same-package helpers it calls: a guard
		// extracted into a helper still guards
		for _, d := range core.TreeDecls(pk, fd, 3) {
			errIdx = errResultIndex(info, d.Type)
			visit(d.Body, false)
		}
		if found {
			o.Auto("present")
		} else {
			where := ""
			if g.TopLevel {
				where = " outside the member callback"
			}
			o.Fail("no such guard%s: the faulty document is accepted", where)
		}
	}
}

func bodyReturnsError(info *types.Info, b *ast.BlockStmt, errIdx int, inLit bool) bool {
	if len(b.List) == 0 {
		return false
	}
	ret, ok := b.List[len(b.List)-1].(*ast.ReturnStmt)
	if !ok || len(ret.Results) == 0 {
		return false
	}
	last := ret.Results[len(ret.Results)-1]
	if !inLit && errIdx >= 0 && errIdx < len(ret.Results) {
		last = ret.Results[errIdx]
	}
	if core.IsNilIdent(info, last) {
		return false
	}
	t := info.TypeOf(last)
	return t != nil && (isErrorType(t) || types.Implements(t, errorIface()))
}

var errIface *types.Interface

func errorIface() *types.Interface {
	if errIface == nil {
		errIface = types.Universe.Lookup("error").Type().Underlying().(*types.Interface)
	}
	return errIface
}

// ---- matchers ----

// CondHas reports whether the condition contains a sub-expression for which
// pred is true.
func CondHas(cond ast.Expr, pred func(e ast.Expr) bool) bool {
	found := false
	ast.Inspect(cond, func(n ast.Node) bool {
		if e, ok := n.(ast.Expr); ok && pred(e) {
			found = true
		}
		return !found
	})
	return found
}

// IsLenGreaterThanOne: len(<slice>) > 1 or >= 2.
func IsLenGreaterThanOne(info *types.Info, e ast.Expr) bool {
	b, ok := core.Unparen(e).(*ast.BinaryExpr)
	if !ok {
		return false
	}
	if _, ok := lenArg(info, b.X); !ok {
		return false
	}
	k, ok := core.ConstInt(info, b.Y)
	if !ok {
		return false
	}
	return (b.Op == token.GTR && k == 1) || (b.Op == token.GEQ && k == 2) || (b.Op == token.NEQ && k == 1)
}

// ReachableAvoiding reports whether the block holding target can be reached
// from the function entry along control-flow edges none of which satisfies
// excl(cond, branch) — i.e. whether target is NOT guarded by such an edge on
// every path. (go/cfg; conditions are the last node of a two-successor block.)
func ReachableAvoiding(body *ast.BlockStmt, target ast.Node, excl func(cond ast.Expr, branch bool) bool) bool {
	g := cfg.New(body, func(*ast.CallExpr) bool { return true })
	var goal *cfg.Block
	for _, b := range g.Blocks {
		for _, n := range b.Nodes {
			if n.Pos() <= target.Pos() && target.End() <= n.End() {
				goal = b
			}
		}
	}
	if goal == nil || len(g.Blocks) == 0 {
		return true
	}
	seen := map[*cfg.Block]bool{}
	var walk func(b *cfg.Block) bool
	walk = func(b *cfg.Block) bool {
		if b == goal {
			return true
		}
		if seen[b] {
			return false
		}
		seen[b] = true
		var cond ast.Expr
		if len(b.Succs) == 2 && len(b.Nodes) > 0 {
			cond = core.BlockCond(b)
		}
		for i, s := range b.Succs {
			if cond != nil && excl(cond, i == 0) {
				continue
			}
			if walk(s) {
				return true
			}
		}
		return false
	}
	return walk(g.Blocks[0])
}

func endsInReturn(b *ast.BlockStmt) bool {
	if len(b.List) == 0 {
		return false
	}
	_, ok := b.List[len(b.List)-1].(*ast.ReturnStmt)
	return ok
}

// Negate builds the negation of a condition with the negation pushed inwards
// (De Morgan, flipped comparison operators). Leaves are the original nodes, so
// type information stays available for them.
func Negate(e ast.Expr) ast.Expr {
	switch x := core.Unparen(e).(type) {
	case *ast.UnaryExpr:
		if x.Op == token.NOT {
			return x.X
		}
	case *ast.BinaryExpr:
		flip := map[token.Token]token.Token{token.EQL: token.NEQ, token.NEQ: token.EQL, token.LSS: token.GEQ, token.GEQ: token.LSS, token.GTR: token.LEQ, token.LEQ: token.GTR}
		switch x.Op {
		case token.LAND:
			return &ast.BinaryExpr{X: Negate(x.X), Op: token.LOR, Y: Negate(x.Y), OpPos: x.OpPos}
		case token.LOR:
			return &ast.BinaryExpr{X: Negate(x.X), Op: token.LAND, Y: Negate(x.Y), OpPos: x.OpPos}
		}
		if op, ok := flip[x.Op]; ok {
			return &ast.BinaryExpr{X: x.X, Op: op, Y: x.Y, OpPos: x.OpPos}
		}
	}
	return &ast.UnaryExpr{Op: token.NOT, X: e, OpPos: e.Pos()}
}
