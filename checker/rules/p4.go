package rules

import (
	"fmt"
	"go/ast"
	"go/token"
	"go/types"

	"golang.org/x/tools/go/cfg"

	"j5verif/checker/core"
)

// checkP4a: a local assigned a composite literal (&T{...} or T{...}) that
// leaves a pointer/map/interface field F unset, followed by a dereferencing
// use of x.F (x.F.G, *x.F, x.F[k] = v, or x.F passed as the message of
// proto.SetExtension) with no assignment to x.F anywhere in the function.
func checkP4a(r *core.Run, f *ScopeFunc, table string) {
	r.Rule("R-PANIC/P4a", "a struct built by a composite literal that leaves a pointer, map or interface field unset must not have that field dereferenced (x.F.G, *x.F, x.F[k] = v, proto.SetExtension(x.F, ..)) unless the function assigns x.F somewhere: the zero field is nil")
	info := f.Pkg.TypesInfo
	type lit struct {
		obj   types.Object
		unset map[string]bool
		pos   token.Pos
	}
	var lits []lit
	record := func(lhs ast.Expr, rhs ast.Expr) {
		id, ok := lhs.(*ast.Ident)
		if !ok {
			return
		}
		obj := info.Defs[id]
		if obj == nil {
			obj = info.Uses[id]
		}
		e := core.Unparen(rhs)
		if u, ok := e.(*ast.UnaryExpr); ok && u.Op == token.AND {
			e = u.X
		}
		cl, ok := e.(*ast.CompositeLit)
		if !ok || obj == nil {
			return
		}
		n := core.NamedOf(info.TypeOf(cl))
		if n == nil {
			return
		}
		st, ok := n.Underlying().(*types.Struct)
		if !ok {
			return
		}
		set := map[string]bool{}
		for _, el := range cl.Elts {
			if kv, ok := el.(*ast.KeyValueExpr); ok {
				if k, ok := kv.Key.(*ast.Ident); ok {
					set[k.Name] = true
				}
			} else {
				return // positional literal: all fields set
			}
		}
		unset := map[string]bool{}
		for i := 0; i < st.NumFields(); i++ {
			fl := st.Field(i)
			if set[fl.Name()] || fl.Embedded() {
				continue
			}
			switch fl.Type().Underlying().(type) {
			case *types.Pointer, *types.Map, *types.Interface:
				unset[fl.Name()] = true
			}
		}
		if len(unset) > 0 {
			lits = append(lits, lit{obj, unset, cl.Pos()})
		}
	}
	f.InspectOwn(func(n ast.Node) bool {
		switch x := n.(type) {
		case *ast.AssignStmt:
			if len(x.Lhs) == len(x.Rhs) {
				for i := range x.Lhs {
					record(x.Lhs[i], x.Rhs[i])
				}
			}
		case *ast.ValueSpec:
			if len(x.Names) == len(x.Values) {
				for i := range x.Names {
					record(x.Names[i], x.Values[i])
				}
			}
		}
		return true
	})
	if len(lits) == 0 {
		return
	}
	// variables whose address is taken may be rewritten through the pointer (errors.As(err, &x)): not analysed
	addrTaken := map[types.Object]bool{}
	f.InspectOwn(func(n ast.Node) bool {
		if u, ok := n.(*ast.UnaryExpr); ok && u.Op == token.AND {
			if id, ok := u.X.(*ast.Ident); ok {
				addrTaken[info.Uses[id]] = true
			}
		}
		return true
	})
	kept := lits[:0]
	for _, l := range lits {
		if !addrTaken[l.obj] {
			kept = append(kept, l)
		}
	}
	lits = kept
	// fields assigned anywhere: obj -> field
	assigned := map[types.Object]map[string]bool{}
	f.InspectOwn(func(n ast.Node) bool {
		as, ok := n.(*ast.AssignStmt)
		if !ok {
			return true
		}
		for _, l := range as.Lhs {
			if s, ok := l.(*ast.SelectorExpr); ok {
				if id, ok := s.X.(*ast.Ident); ok {
					o := info.Uses[id]
					if assigned[o] == nil {
						assigned[o] = map[string]bool{}
					}
					assigned[o][s.Sel.Name] = true
				}
			}
		}
		return true
	})
	var reachesFn func(obj types.Object, litPos token.Pos, use ast.Node) bool
	isUnsetField := func(e ast.Expr) (string, types.Object, bool) {
		s, ok := core.Unparen(e).(*ast.SelectorExpr)
		if !ok {
			return "", nil, false
		}
		id, ok := s.X.(*ast.Ident)
		if !ok {
			return "", nil, false
		}
		o := info.Uses[id]
		for _, l := range lits {
			if l.obj == o && l.unset[s.Sel.Name] && !assigned[o][s.Sel.Name] {
				if reachesFn != nil && !reachesFn(o, l.pos, e) {
					continue
				}
				if FactsAt(info, f.Body, e).NonNil[id.Name+"."+s.Sel.Name] {
					continue
				}
				return id.Name + "." + s.Sel.Name, o, true
			}
		}
		return "", nil, false
	}
	g := cfg.New(f.Body, func(c *ast.CallExpr) bool { return core.CalleeName(info, c) != "builtin.panic" })
	// reaches: the use at `use` is reachable from the literal at litPos without another assignment to obj
	reaches := func(obj types.Object, litPos token.Pos, use ast.Node) bool {
		assignsObj := func(n ast.Node) (isLit bool, kills bool) {
			switch x := n.(type) {
			case *ast.AssignStmt:
				for _, l := range x.Lhs {
					if id, ok := l.(*ast.Ident); ok && (info.Uses[id] == obj || info.Defs[id] == obj) {
						if x.Pos() <= litPos && litPos <= x.End() {
							return true, false
						}
						return false, true
					}
				}
			case *ast.ValueSpec:
				for _, nme := range x.Names {
					if info.Defs[nme] == obj {
						if x.Pos() <= litPos && litPos <= x.End() {
							return true, false
						}
						return false, true
					}
				}
			case *ast.DeclStmt:
				if x.Pos() <= litPos && litPos <= x.End() {
					return true, false
				}
			}
			return false, false
		}
		contains := func(n ast.Node) bool { return n.Pos() <= use.Pos() && use.End() <= n.End() }
		type state struct {
			b *cfg.Block
			i int
		}
		var start *state
		for _, b := range g.Blocks {
			for i, n := range b.Nodes {
				if isLit, _ := assignsObj(n); isLit {
					start = &state{b, i + 1}
				}
			}
		}
		if start == nil {
			return true // cannot place the literal in the CFG: stay conservative
		}
		seen := map[*cfg.Block]bool{}
		var walk func(b *cfg.Block, from int) bool
		walk = func(b *cfg.Block, from int) bool {
			for i := from; i < len(b.Nodes); i++ {
				if contains(b.Nodes[i]) {
					return true
				}
				if _, kills := assignsObj(b.Nodes[i]); kills {
					return false
				}
			}
			for _, s := range b.Succs {
				if !seen[s] {
					seen[s] = true
					if walk(s, 0) {
						return true
					}
				}
			}
			return false
		}
		return walk(start.b, start.i)
	}
	litPosOf := func(obj types.Object, field string) token.Pos {
		for _, l := range lits {
			if l.obj == obj && l.unset[field] {
				return l.pos
			}
		}
		return token.NoPos
	}
	_ = litPosOf
	reachesFn = reaches
	report := func(what string, pos token.Pos, field string) {
		o := r.Add("R-PANIC/P4a", siteKey(f, what), pos, what)
		if !r.Table(table, o) {
			o.Fail("%s is never assigned in this function and the composite literal that creates the struct leaves it nil", field)
		}
	}
	f.InspectOwn(func(n ast.Node) bool {
		switch x := n.(type) {
		case *ast.SelectorExpr:
			if fld, _, ok := isUnsetField(x.X); ok {
				// x.F.G where F's type is a pointer to struct (field access through nil) — method calls on nil pointers may be fine
				if sel, isSel := info.Selections[x]; isSel && sel.Kind() == types.FieldVal {
					report(fmt.Sprintf("nil field deref %s.%s", fld, x.Sel.Name), x.Pos(), fld)
				}
			}
		case *ast.StarExpr:
			if fld, _, ok := isUnsetField(x.X); ok {
				report("nil field deref *"+fld, x.Pos(), fld)
			}
		case *ast.CallExpr:
			if core.CalleeName(info, x) == fnSetExtension && len(x.Args) == 3 {
				if fld, _, ok := isUnsetField(x.Args[0]); ok {
					report("SetExtension on nil message "+fld, x.Pos(), fld)
				}
			}
		case *ast.AssignStmt:
			for _, l := range x.Lhs {
				if ix, ok := l.(*ast.IndexExpr); ok {
					if fld, _, ok := isUnsetField(ix.X); ok {
						if _, isMap := info.TypeOf(ix.X).Underlying().(*types.Map); isMap {
							report("write to nil map "+fld, x.Pos(), fld)
						}
					}
				}
			}
		}
		return true
	})
}

// checkP4b: `x, _ := f()` where f reports failure in its last result (bool or
// error) and x is a pointer, map or interface: on failure x is nil by the
// usual contract ((*big.Rat).SetString, map lookups wrapped in helpers, …), so
// a method call through x or a dereference of x needs a nil test.
func checkP4b(r *core.Run, f *ScopeFunc, table string) {
	r.Rule("R-PANIC/P4b", "a pointer, map or interface result whose accompanying ok/error result is discarded with the blank identifier must not be dereferenced or used as a method receiver without a dominating nil test: on failure the callee returns nil")
	info := f.Pkg.TypesInfo
	type cand struct {
		obj  types.Object
		call string
		pos  token.Pos
	}
	var cands []cand
	f.InspectOwn(func(n ast.Node) bool {
		as, ok := n.(*ast.AssignStmt)
		if !ok || len(as.Rhs) != 1 || len(as.Lhs) < 2 {
			return true
		}
		call, ok := core.Unparen(as.Rhs[0]).(*ast.CallExpr)
		if !ok {
			return true
		}
		last, ok := as.Lhs[len(as.Lhs)-1].(*ast.Ident)
		if !ok || last.Name != "_" {
			return true
		}
		tup, ok := info.TypeOf(call).(*types.Tuple)
		if !ok || tup.Len() != len(as.Lhs) {
			return true
		}
		lt := tup.At(tup.Len() - 1).Type()
		isFail := types.Identical(lt, types.Universe.Lookup("error").Type())
		if b, ok := lt.Underlying().(*types.Basic); ok && b.Kind() == types.Bool {
			isFail = true
		}
		if !isFail {
			return true
		}
		id, ok := as.Lhs[0].(*ast.Ident)
		if !ok || id.Name == "_" {
			return true
		}
		switch tup.At(0).Type().Underlying().(type) {
		case *types.Pointer:
		default:
			return true // maps and interfaces: reading a nil map is fine, nil interfaces are covered by P3/P6
		}
		obj := info.Defs[id]
		if obj == nil {
			obj = info.Uses[id]
		}
		// a callee of this module that never returns a nil literal in its first
		// result uses the flag for something else (refTo: "already existed")
		if fn := core.CalleeFunc(info, call); fn != nil && fn.Pkg() != nil && core.IsSource(fn.Pkg().Path()) {
			if !mayReturnNilFirst(r.P, fn.Name()) {
				return true
			}
		}
		if obj != nil {
			cands = append(cands, cand{obj, core.ExprStr(call.Fun), as.Pos()})
		}
		return true
	})
	if len(cands) == 0 {
		return
	}
	for _, c := range cands {
		c := c
		f.InspectOwn(func(n ast.Node) bool {
			var recv ast.Expr
			switch x := n.(type) {
			case *ast.SelectorExpr:
				recv = x.X
			case *ast.StarExpr:
				recv = x.X
			default:
				return true
			}
			id, ok := core.Unparen(recv).(*ast.Ident)
			if !ok || info.Uses[id] != c.obj || n.Pos() < c.pos {
				return true
			}
			// calling a method with a pointer receiver on nil only panics when the
			// method dereferences; treat every use through the pointer as a dereference
			o := r.Add("R-PANIC/P4b", siteKey(f, fmt.Sprintf("%s from %s(…) with its ok/error discarded", id.Name, c.call)), n.Pos(), "use of "+id.Name+" whose failure flag was discarded")
			facts := FactsAt(info, f.Body, n)
			switch {
			case facts.NonNil[id.Name]:
				o.Auto("dominated by a nil test of %s", id.Name)
			case r.Table(table, o):
			default:
				o.Fail("%s comes from %s(…) whose ok/error result is discarded; when the call fails %s is nil and this use panics", id.Name, c.call, id.Name)
			}
			return false
		})
	}
}

// mayReturnNilFirst: some function or method of that name in the module has a
// return statement whose first result is the nil literal (interface methods
// are resolved by name: every implementation is looked at).
func mayReturnNilFirst(p *core.Prog, name string) bool {
	found, any := false, false
	for path, pk := range p.ByPkg {
		if !core.IsSource(path) {
			continue
		}
		core.AllFuncDecls(pk, func(fd *ast.FuncDecl) {
			if fd.Name.Name != name || fd.Body == nil {
				return
			}
			any = true
			ast.Inspect(fd.Body, func(n ast.Node) bool {
				if _, isLit := n.(*ast.FuncLit); isLit {
					return false
				}
				if ret, ok := n.(*ast.ReturnStmt); ok && len(ret.Results) > 1 && core.IsNilIdent(pk.TypesInfo, ret.Results[0]) {
					found = true
				}
				return true
			})
		})
	}
	return found || !any
}
