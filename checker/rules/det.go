package rules

import (
	"fmt"
	"go/ast"
	"go/token"
	"go/types"
	"os"
	"strings"

	"j5verif/checker/core"
)

var unorderedRangers = map[string]bool{
	"(google.golang.org/protobuf/reflect/protoreflect.Map).Range":                   true,
	"(google.golang.org/protobuf/reflect/protoreflect.Message).Range":               true,
	"google.golang.org/protobuf/proto.RangeExtensions":                              true,
	"(*google.golang.org/protobuf/reflect/protoregistry.Files).RangeFiles":          true,
	"(*google.golang.org/protobuf/reflect/protoregistry.Files).RangeFilesByPackage": true,
	"(*google.golang.org/protobuf/reflect/protoregistry.Types).RangeMessages":       true,
	"(*google.golang.org/protobuf/reflect/protoregistry.Types).RangeExtensions":     true,
	"maps.Keys":   true,
	"maps.Values": true,
}

var nondetCalls = map[string]bool{
	"time.Now": true, "time.Since": true, "os.Getenv": true, "os.Environ": true, "os.Getpid": true, "os.Hostname": true,
	"github.com/google/uuid.New": true, "github.com/google/uuid.NewString": true, "github.com/google/uuid.NewV7": true, "github.com/google/uuid.NewRandom": true,
}

// Determinism arms R-DET N1–N3 over the scope.
func Determinism(r *core.Run, sc *Scope, table string) {
	r.Rule("R-DET/N1", "every iteration over an unordered collection on the compile/print path (range over a map, protoreflect Map.Range / Message.Range, proto.RangeExtensions, registry Range*, maps.Keys/Values) must not leak its order: the body only stores into maps/sets, accumulates booleans or returns an error; or everything it appends to is sorted right after the loop before any other use; anything else needs a recorded reason")
	r.Rule("R-DET/N2", "no reachable call to a clock, random source, environment variable or fresh-UUID generator, no goroutine start and no select on the compile/print path (package rand is forbidden wholesale)")
	r.Rule("R-DET/N3", "hand-written sort comparators are recorded with the fields they compare; their totality is not decided")
	for _, f := range sc.Funcs {
		info := f.Pkg.TypesInfo
		// N1: range statements over maps
		f.InspectOwn(func(n ast.Node) bool {
			switch x := n.(type) {
			case *ast.RangeStmt:
				if _, isMap := info.TypeOf(x.X).Underlying().(*types.Map); !isMap {
					return true
				}
				key := siteKey(f, "range "+core.NormExpr(info, x.X))
				if os.Getenv("J5CHECK_KEYMAP") != "" {
					if oldk := siteKey(f, "range "+core.ExprStr(x.X)); oldk != key {
						fmt.Fprintf(os.Stderr, "KEYMAP\t%s\t%s\n", oldk, key)
					}
				}
				o := r.Add("R-DET/N1", key, x.Pos(), "range over map "+core.ExprStr(x.X))
				if why, ok := orderInsensitive(info, f, x.Body, x); ok {
					o.Auto("%s", why)
				} else if !r.Table(table, o) {
					o.Fail("iteration order of %s can reach the output (%s)", core.ExprStr(x.X), why)
				}
			case *ast.CallExpr:
				name := core.CalleeName(info, x)
				if i := strings.Index(name, "["); i > 0 {
					name = name[:i]
				}
				if unorderedRangers[name] {
					o := r.Add("R-DET/N1", siteKey(f, "unordered "+shortName(name)), x.Pos(), shortName(name)+" (unspecified order)")
					var body *ast.BlockStmt
					for _, a := range x.Args {
						if fl, ok := a.(*ast.FuncLit); ok {
							body = fl.Body
						}
					}
					if body == nil {
						// maps.Keys etc.: the result must be sorted
						if why, ok := resultSorted(info, f, x); ok {
							o.Auto("%s", why)
						} else if !r.Table(table, o) {
							o.Fail("unordered result is not sorted before use")
						}
						return true
					}
					if why, ok := orderInsensitive(info, f, body, x); ok {
						o.Auto("%s", why)
					} else if !r.Table(table, o) {
						o.Fail("callback order can reach the output (%s)", why)
					}
				}
				if nondetCalls[name] || strings.HasPrefix(name, "math/rand.") || strings.HasPrefix(name, "math/rand/v2.") || strings.HasPrefix(name, "crypto/rand.") {
					o := r.Add("R-DET/N2", siteKey(f, "call "+name), x.Pos(), "call of "+name)
					if !r.Table(table, o) {
						o.Fail("%s makes the output depend on the run", name)
					}
				}
				// N3
				if name == "sort.Sort" || name == "sort.Stable" || name == "sort.Slice" || name == "sort.SliceStable" || name == "slices.SortFunc" || name == "slices.SortStableFunc" {
					r.Add("R-DET/N3", siteKey(f, name+"("+core.ExprStr(x.Args[0])+")"), x.Pos(), "custom-ordered sort of "+core.ExprStr(x.Args[0])).Auto("recorded: comparator totality/uniqueness of the key is not decided")
				}
			case *ast.GoStmt:
				o := r.Add("R-DET/N2", siteKey(f, "go statement"), x.Pos(), "goroutine start")
				if !r.Table(table, o) {
					o.Fail("concurrent execution on the compile path: completion order may reach the output")
				}
			case *ast.SelectStmt:
				o := r.Add("R-DET/N2", siteKey(f, "select"), x.Pos(), "select statement")
				if !r.Table(table, o) {
					o.Fail("select chooses among ready cases pseudo-randomly")
				}
			}
			return true
		})
	}
}

func recvStr(c *ast.CallExpr) string {
	if s, ok := c.Fun.(*ast.SelectorExpr); ok {
		return core.ExprStr(s.X)
	}
	if len(c.Args) > 0 {
		return core.ExprStr(c.Args[0])
	}
	return ""
}

// orderInsensitive decides whether the loop/callback body cannot leak the
// iteration order.
func orderInsensitive(info *types.Info, f *ScopeFunc, body *ast.BlockStmt, loop ast.Node) (string, bool) {
	var appended []ast.Expr
	bad := ""
	// variables declared inside the body are per-iteration state
	local := map[types.Object]bool{}
	ast.Inspect(body, func(n ast.Node) bool {
		switch x := n.(type) {
		case *ast.ValueSpec:
			for _, nm := range x.Names {
				local[info.Defs[nm]] = true
			}
		case *ast.AssignStmt:
			if x.Tok == token.DEFINE {
				for _, l := range x.Lhs {
					if id, ok := l.(*ast.Ident); ok && info.Defs[id] != nil {
						local[info.Defs[id]] = true
					}
				}
			}
		}
		return true
	})
	var visit func(list []ast.Stmt)
	visit = func(list []ast.Stmt) {
		for _, st := range list {
			if bad != "" {
				return
			}
			switch x := st.(type) {
			case *ast.AssignStmt:
				for _, rhs := range x.Rhs {
					if e := callEffects(f.Pkg, local, rhs); e != "" {
						bad = e
					}
				}
				for i, l := range x.Lhs {
					switch lv := l.(type) {
					case *ast.IndexExpr:
						if _, isMap := info.TypeOf(lv.X).Underlying().(*types.Map); isMap {
							// a store into a map or set leaks no order — unless two iterations can write
							// different values under the same key (the last one wins): safe when the key is
							// the iteration's own key, or the stored value does not depend on the iteration
							if mapStoreCollides(info, loop, lv, x, i, local) {
								bad = "map store " + core.ExprStr(l) + " = … under a key that is not the iteration's own: when two elements yield the same key the last one iterated wins"
							}
							continue
						}
						bad = "indexed store " + core.ExprStr(l)
					case *ast.Ident, *ast.SelectorExpr:
						// filling in a field of a value that lives for one iteration only
						if _, isSel := l.(*ast.SelectorExpr); isSel {
							if root := rootIdentOf(l); root != nil && local[info.Uses[root]] {
								continue
							}
						}
						if len(x.Rhs) == len(x.Lhs) {
							if c, ok := core.Unparen(x.Rhs[i]).(*ast.CallExpr); ok && core.CalleeName(info, c) == "builtin.append" && core.ExprStr(c.Args[0]) == core.ExprStr(l) {
								appended = append(appended, l)
								continue
							}
							if tv, ok := info.Types[x.Rhs[i]]; ok && tv.Value != nil {
								continue // constant flag
							}
							if id, ok := l.(*ast.Ident); ok && (id.Name == "_" || info.Defs[id] != nil || local[info.Uses[id]]) {
								continue // fresh / per-iteration local
							}
							if isErrorType(info.TypeOf(l)) {
								continue // remembers an error (which one is order-dependent, the outcome "failed" is not)
							}
						} else if x.Tok == token.DEFINE {
							continue
						}
						bad = "assignment " + core.ExprStr(l) + " = …"
					default:
						bad = "assignment to " + core.ExprStr(l)
					}
				}
			case *ast.IfStmt:
				if x.Init != nil {
					visit([]ast.Stmt{x.Init})
				}
				if e := callEffects(f.Pkg, local, x.Cond); e != "" {
					bad = e
				}
				visit(x.Body.List)
				switch e := x.Else.(type) {
				case *ast.BlockStmt:
					visit(e.List)
				case *ast.IfStmt:
					visit([]ast.Stmt{e})
				}
			case *ast.ReturnStmt:
				for _, res := range x.Results {
					if e := callEffects(f.Pkg, local, res); e != "" {
						bad = e
					}
				}
			case *ast.BranchStmt, *ast.DeclStmt, *ast.EmptyStmt:
			case *ast.IncDecStmt:
				// counters are order-insensitive
			case *ast.ExprStmt:
				c, ok := x.X.(*ast.CallExpr)
				if !ok {
					bad = "expression statement"
					break
				}
				name := core.CalleeName(info, c)
				switch {
				case name == "builtin.delete":
				case strings.HasPrefix(name, "log.") || strings.Contains(name, "log.go/log"):
				case strings.HasSuffix(name, ".WarnPos") || strings.HasSuffix(name, ".Warn"):
					// diagnostics channel, not part of descriptors or printed text
				default:
					bad = "call " + shortName(name)
					if name == "" {
						bad = "call " + core.ExprStr(c.Fun)
					}
				}
			case *ast.RangeStmt:
				visit(x.Body.List)
			case *ast.ForStmt:
				visit(x.Body.List)
			case *ast.BlockStmt:
				visit(x.List)
			case *ast.SwitchStmt:
				if x.Init != nil {
					visit([]ast.Stmt{x.Init})
				}
				if x.Tag != nil {
					if e := callEffects(f.Pkg, local, x.Tag); e != "" {
						bad = e
					}
				}
				for _, cl := range x.Body.List {
					visit(cl.(*ast.CaseClause).Body)
				}
			case *ast.TypeSwitchStmt:
				for _, cl := range x.Body.List {
					visit(cl.(*ast.CaseClause).Body)
				}
			default:
				bad = fmt.Sprintf("statement %T", st)
			}
		}
	}
	visit(body.List)
	if bad == "" {
		bad = firstMatchReturn(info, body, loop, local)
	}
	if bad != "" {
		return "body contains " + bad, false
	}
	if len(appended) == 0 {
		return "body only stores into maps, sets flags, counts or returns: order cannot reach the output", true
	}
	// every appended slice must be sorted right after the loop
	for _, s := range appended {
		if !sortedAfter(info, f, loop, core.ExprStr(s)) {
			return "appends to " + core.ExprStr(s) + " and no sort of it follows the loop", false
		}
	}
	return "appended slices are sorted immediately after the loop", true
}

// sortedAfter: in the statement list containing the loop, a later statement
// of the same list sorts the named slice (uses between the loop and the sort
// are not inspected: stated imprecision).
func sortedAfter(info *types.Info, f *ScopeFunc, loop ast.Node, slice string) bool {
	path := core.PathTo(f.Body, loop)
	for i := len(path) - 1; i >= 0; i-- {
		var list []ast.Stmt
		switch b := path[i].(type) {
		case *ast.BlockStmt:
			list = b.List
		case *ast.CaseClause:
			list = b.Body
		default:
			continue
		}
		idx := -1
		for j, st := range list {
			if st.Pos() <= loop.Pos() && loop.End() <= st.End() {
				idx = j
			}
		}
		if idx < 0 {
			continue
		}
		// local aliases of the slice introduced after the loop (`entries := out.Children`): sorting
		// the alias sorts the same backing array
		names := map[string]bool{slice: true}
		for j := idx + 1; j < len(list); j++ {
			if as, ok := list[j].(*ast.AssignStmt); ok && len(as.Lhs) == 1 && len(as.Rhs) == 1 && names[core.ExprStr(as.Rhs[0])] {
				if id, ok := as.Lhs[0].(*ast.Ident); ok {
					names[id.Name] = true
				}
			}
			found := false
			ast.Inspect(list[j], func(n ast.Node) bool {
				if c, ok := n.(*ast.CallExpr); ok {
					name := core.CalleeName(info, c)
					if (strings.HasPrefix(name, "sort.") || strings.HasPrefix(name, "slices.Sort")) && len(c.Args) > 0 {
						arg := core.ExprStr(c.Args[0])
						if strings.Contains(arg, slice) || names[arg] {
							found = true
						}
					}
				}
				return !found
			})
			if found {
				return true
			}
		}
		return false
	}
	return false
}

func resultSorted(info *types.Info, f *ScopeFunc, call *ast.CallExpr) (string, bool) {
	// x := maps.Keys(m) … sort(x)
	path := core.PathTo(f.Body, call)
	for i := len(path) - 1; i >= 0; i-- {
		if as, ok := path[i].(*ast.AssignStmt); ok && len(as.Lhs) == 1 {
			if sortedAfter(info, f, as, core.ExprStr(as.Lhs[0])) {
				return "result is sorted right after", true
			}
		}
	}
	return "", false
}

// MemoPurity arms R-DET/N4: a memoised computation (guarded by `if x.F != nil
// { return x.F }` … `x.F = v`) may read, anywhere in its module call tree,
// only state that is immutable after construction: fields of the module's
// struct types that are assigned outside composite literals and constructor
// functions (New*/new*) are "mutable context"; reading one inside the call
// tree makes the cached value depend on what happened before the first call.
func MemoPurity(r *core.Run, rel string, memoFuncs []string, table string) {
	r.Rule("R-DET/N4", "a cached (memoised) result must not depend on when it was first computed: inside the call tree of the function that fills the cache, no field of a module struct that is assigned outside its constructor/composite literal (mutable context) is read; the cache field itself and per-call parameters are exempt")
	pk := r.P.Pkg(rel)
	if pk == nil {
		r.Fatal("anchor: package %s not found", rel)
		return
	}
	info := pk.TypesInfo
	// mutable fields of this package's struct types: "Type.field" -> where assigned
	mutable := map[string]token.Pos{}
	core.AllFuncDecls(pk, func(fd *ast.FuncDecl) {
		ctor := strings.HasPrefix(fd.Name.Name, "new") || strings.HasPrefix(fd.Name.Name, "New")
		ast.Inspect(fd.Body, func(n ast.Node) bool {
			as, ok := n.(*ast.AssignStmt)
			if !ok {
				return true
			}
			for _, l := range as.Lhs {
				s, ok := l.(*ast.SelectorExpr)
				if !ok {
					continue
				}
				nt := core.NamedOf(info.TypeOf(s.X))
				if nt == nil || nt.Obj().Pkg() != pk.Types {
					continue
				}
				if ctor {
					continue
				}
				// objects allocated in this function are still under construction
				if id, ok := s.X.(*ast.Ident); ok && allocatedHere(info, fd, id) {
					continue
				}
				mutable[nt.Obj().Name()+"."+s.Sel.Name] = as.Pos()
			}
			return true
		})
	})
	for _, mf := range memoFuncs {
		fd, _ := r.P.FuncDecl(rel, mf)
		if fd == nil {
			r.Fatal("anchor: %s.%s not found", rel, mf)
			continue
		}
		memoField := memoFieldOf(info, fd)
		o := r.Add("R-DET/N4", rel+"."+mf+" | memo shape", fd.Pos(), "memoisation in "+mf)
		if memoField == "" {
			o.Fail("expected `if x.F != nil { return x.F }` … `x.F = v` (cache fill) in %s", mf)
			continue
		}
		o.Auto("caches in %s", memoField)
		// call tree within the package
		seen := map[*ast.FuncDecl]bool{}
		var tree []*ast.FuncDecl
		var walk func(f *ast.FuncDecl)
		walk = func(f *ast.FuncDecl) {
			if seen[f] {
				return
			}
			seen[f] = true
			tree = append(tree, f)
			ast.Inspect(f.Body, func(n ast.Node) bool {
				if c, ok := n.(*ast.CallExpr); ok {
					if fn := core.CalleeFunc(info, c); fn != nil && fn.Pkg() == pk.Types {
						if g := funcByObj(r, fn); g != nil {
							if gd, ok := g.Node.(*ast.FuncDecl); ok {
								walk(gd)
							}
						}
					}
				}
				return true
			})
		}
		walk(fd)
		for _, f := range tree {
			lhs := map[ast.Expr]bool{}
			ast.Inspect(f.Body, func(n ast.Node) bool {
				if as, ok := n.(*ast.AssignStmt); ok {
					for _, l := range as.Lhs {
						lhs[l] = true
					}
				}
				return true
			})
			ast.Inspect(f.Body, func(n ast.Node) bool {
				s, ok := n.(*ast.SelectorExpr)
				if !ok || lhs[s] {
					return true
				}
				nt := core.NamedOf(info.TypeOf(s.X))
				if nt == nil || nt.Obj().Pkg() != pk.Types {
					return true
				}
				key := nt.Obj().Name() + "." + s.Sel.Name
				if _, isMut := mutable[key]; !isMut || key == memoField {
					return true
				}
				if sel, ok := info.Selections[s]; !ok || sel.Kind() != types.FieldVal {
					return true
				}
				o := r.Add("R-DET/N4", fmt.Sprintf("%s.%s | tree of %s reads %s", rel, core.FuncName(f), mf, key), s.Pos(), "read of mutable field "+key+" while computing a cached result")
				if !r.Table(table, o) {
					o.Fail("%s is assigned at %s after construction; the value cached by %s therefore depends on the state at the time of the first call (order of CompilePackage calls, reused vs fresh set)", key, r.P.Rel(mutable[key]), mf)
				}
				return true
			})
		}
		// control flow of the memoised computation must not depend on the
		// computing object (the receiver), whose lifetime differs from the
		// cache holder's: the first caller's configuration would be frozen
		// into the cached value.
		recvType := core.RecvName(fd)
		// a failed computation is not cached when the store to the memo field
		// follows an `if err != nil { return … }` in the same block
		storeAfterErrCheck := false
		ast.Inspect(fd.Body, func(n ast.Node) bool {
			blk, ok := n.(*ast.BlockStmt)
			if !ok {
				return true
			}
			checked := false
			for _, st := range blk.List {
				if ifs, ok := st.(*ast.IfStmt); ok && len(ifs.Body.List) > 0 {
					if be, ok := ifs.Cond.(*ast.BinaryExpr); ok && be.Op == token.NEQ && core.IsNilIdent(info, be.Y) && isErrorType(info.TypeOf(be.X)) {
						if _, isRet := ifs.Body.List[len(ifs.Body.List)-1].(*ast.ReturnStmt); isRet {
							checked = true
						}
					}
				}
				if as, ok := st.(*ast.AssignStmt); ok && checked {
					for _, l := range as.Lhs {
						if sel, ok := l.(*ast.SelectorExpr); ok {
							if nt := core.NamedOf(info.TypeOf(sel.X)); nt != nil && nt.Obj().Name()+"."+sel.Sel.Name == memoField {
								storeAfterErrCheck = true
							}
						}
					}
				}
			}
			return true
		})
		abortOnly := map[ast.Expr]bool{}
		for _, f := range tree {
			var conds []ast.Expr
			ast.Inspect(f.Body, func(n ast.Node) bool {
				switch x := n.(type) {
				case *ast.IfStmt:
					conds = append(conds, x.Cond)
					// `if cond { return …, <non-nil error> }` without else: the branch only aborts
					if x.Else == nil && len(x.Body.List) > 0 {
						if ret, ok := x.Body.List[len(x.Body.List)-1].(*ast.ReturnStmt); ok && len(ret.Results) > 0 {
							last := ret.Results[len(ret.Results)-1]
							if isErrorType(info.TypeOf(last)) && !core.IsNilIdent(info, last) {
								abortOnly[x.Cond] = true
							}
						}
					}
				case *ast.SwitchStmt:
					if x.Tag != nil {
						conds = append(conds, x.Tag)
					}
				case *ast.ForStmt:
					if x.Cond != nil {
						conds = append(conds, x.Cond)
					}
				case *ast.CaseClause:
					conds = append(conds, x.List...)
				}
				return true
			})
			for _, c := range conds {
				ast.Inspect(c, func(n ast.Node) bool {
					s, ok := n.(*ast.SelectorExpr)
					if !ok {
						return true
					}
					nt := core.NamedOf(info.TypeOf(s.X))
					if nt == nil || nt.Obj().Pkg() != pk.Types || nt.Obj().Name() != recvType {
						return true
					}
					if sel, ok := info.Selections[s]; !ok || sel.Kind() != types.FieldVal {
						return true
					}
					o := r.Add("R-DET/N4", fmt.Sprintf("%s.%s | tree of %s branches on %s.%s", rel, core.FuncName(f), mf, recvType, s.Sel.Name), s.Pos(), "branch on "+recvType+"."+s.Sel.Name+" while computing a value cached on another object")
					if abortOnly[c] && storeAfterErrCheck {
						o.Auto("the branch only aborts the computation with an error, and %s stores to %s only after its error check: nothing computed under this branch is cached", mf, memoField)
					} else if !r.Table(table, o) {
						o.Fail("the result is cached in %s and reused by later callers, but this branch depends on %s.%s of whichever %s computed it first: output depends on call order and on fresh vs reused sets", memoField, recvType, s.Sel.Name, recvType)
					}
					return true
				})
			}
		}
		r.Analysed["memo_tree_functions_"+mf] = len(tree)
	}
}

func allocatedHere(info *types.Info, fd *ast.FuncDecl, id *ast.Ident) bool {
	obj := info.Uses[id]
	if obj == nil {
		return false
	}
	found := false
	ast.Inspect(fd.Body, func(n ast.Node) bool {
		as, ok := n.(*ast.AssignStmt)
		if !ok || as.Tok != token.DEFINE {
			return true
		}
		for i, l := range as.Lhs {
			li, ok := l.(*ast.Ident)
			if !ok || info.Defs[li] != obj || len(as.Rhs) != len(as.Lhs) {
				continue
			}
			e := core.Unparen(as.Rhs[i])
			if u, ok := e.(*ast.UnaryExpr); ok && u.Op == token.AND {
				e = u.X
			}
			if _, ok := e.(*ast.CompositeLit); ok {
				found = true
			}
			if c, ok := e.(*ast.CallExpr); ok {
				if fn := core.CalleeFunc(info, c); fn != nil && (strings.HasPrefix(fn.Name(), "new") || strings.HasPrefix(fn.Name(), "New")) {
					found = true
				}
			}
		}
		return true
	})
	return found
}

// memoFieldOf recognises `if x.F != nil { … return x.F … }` plus `x.F = v`.
func memoFieldOf(info *types.Info, fd *ast.FuncDecl) string {
	tested := map[string]string{}
	ast.Inspect(fd.Body, func(n ast.Node) bool {
		ifs, ok := n.(*ast.IfStmt)
		if !ok {
			return true
		}
		b, ok := core.Unparen(ifs.Cond).(*ast.BinaryExpr)
		if !ok || b.Op != token.NEQ || !core.IsNilIdent(info, b.Y) {
			return true
		}
		s, ok := core.Unparen(b.X).(*ast.SelectorExpr)
		if !ok {
			return true
		}
		if nt := core.NamedOf(info.TypeOf(s.X)); nt != nil && containsReturn(ifs.Body) {
			tested[core.ExprStr(s)] = nt.Obj().Name() + "." + s.Sel.Name
		}
		return true
	})
	out := ""
	ast.Inspect(fd.Body, func(n ast.Node) bool {
		if as, ok := n.(*ast.AssignStmt); ok {
			for _, l := range as.Lhs {
				if k, ok := tested[core.ExprStr(l)]; ok {
					out = k
				}
			}
		}
		return true
	})
	return out
}

func containsReturn(n ast.Node) bool {
	found := false
	ast.Inspect(n, func(x ast.Node) bool {
		if _, ok := x.(*ast.ReturnStmt); ok {
			found = true
		}
		if _, ok := x.(*ast.FuncLit); ok {
			return false
		}
		return !found
	})
	return found
}

// mapStoreCollides: inside an unordered iteration, `m[k] = v` with k not the
// iteration's own key (range key variable, or first callback parameter) and v
// depending on the iteration (it mentions a per-iteration variable and is not
// a constant).
func mapStoreCollides(info *types.Info, loop ast.Node, lv *ast.IndexExpr, as *ast.AssignStmt, i int, local map[types.Object]bool) bool {
	if len(as.Rhs) != len(as.Lhs) {
		return false
	}
	v := as.Rhs[i]
	if tv, ok := info.Types[v]; ok && tv.Value != nil {
		return false // constant: a set insert
	}
	if id, ok := core.Unparen(v).(*ast.Ident); ok && (id.Name == "true" || id.Name == "false" || id.Name == "nil") {
		return false
	}
	if cl, ok := core.Unparen(v).(*ast.CompositeLit); ok && len(cl.Elts) == 0 {
		return false // struct{}{}
	}
	// the iteration's own key and value variables
	var iterKey types.Object
	iterVars := map[types.Object]bool{}
	switch l := loop.(type) {
	case *ast.RangeStmt:
		if id, ok := l.Key.(*ast.Ident); ok {
			iterKey = info.Defs[id]
			iterVars[info.Defs[id]] = true
		}
		if id, ok := l.Value.(*ast.Ident); ok {
			iterVars[info.Defs[id]] = true
		}
	case *ast.CallExpr:
		for _, a := range l.Args {
			if fl, ok := a.(*ast.FuncLit); ok && fl.Type.Params != nil {
				first := true
				for _, f := range fl.Type.Params.List {
					for _, nm := range f.Names {
						if first {
							iterKey = info.Defs[nm]
							first = false
						}
						iterVars[info.Defs[nm]] = true
					}
				}
			}
		}
	}
	if id, ok := core.Unparen(lv.Index).(*ast.Ident); ok && iterKey != nil && info.Uses[id] == iterKey {
		return false // keyed by the iteration's own key: distinct per element
	}
	// does the value depend on the iteration?
	dep := false
	ast.Inspect(v, func(n ast.Node) bool {
		if id, ok := n.(*ast.Ident); ok {
			if o := info.Uses[id]; o != nil && (iterVars[o] || local[o]) {
				dep = true
			}
		}
		return !dep
	})
	return dep
}

// firstMatchReturn: a return inside an unordered iteration that hands back a value taken from the
// current element returns "the first match in iteration order". That is order-free only when at
// most one element can match: the return is guarded by an equality between the iteration's own
// map key and something that does not depend on the iteration. A test of a *function* of the key
// (a trimmed or folded name) can hold for several keys, and which of them is met first varies.
func firstMatchReturn(info *types.Info, body *ast.BlockStmt, loop ast.Node, local map[types.Object]bool) string {
	iter := map[types.Object]bool{}
	var keyObj types.Object
	switch l := loop.(type) {
	case *ast.RangeStmt:
		if id, ok := l.Key.(*ast.Ident); ok && id.Name != "_" {
			keyObj = info.ObjectOf(id)
			iter[keyObj] = true
		}
		if id, ok := l.Value.(*ast.Ident); ok && id.Name != "_" {
			iter[info.ObjectOf(id)] = true
		}
		if _, isMap := info.TypeOf(l.X).Underlying().(*types.Map); !isMap {
			keyObj = nil
		}
	case *ast.FuncLit:
		for _, p := range l.Type.Params.List {
			for _, nm := range p.Names {
				iter[info.ObjectOf(nm)] = true
			}
		}
	default:
		return ""
	}
	dependent := func(e ast.Expr) bool {
		hit := false
		ast.Inspect(e, func(n ast.Node) bool {
			if id, ok := n.(*ast.Ident); ok {
				if o := info.ObjectOf(id); o != nil && (iter[o] || local[o]) {
					hit = true
				}
			}
			return !hit
		})
		return hit
	}
	var uniqueKeyTest func(c ast.Expr) bool
	uniqueKeyTest = func(c ast.Expr) bool {
		b, ok := core.Unparen(c).(*ast.BinaryExpr)
		if !ok {
			return false
		}
		if b.Op == token.LAND {
			return uniqueKeyTest(b.X) || uniqueKeyTest(b.Y)
		}
		if b.Op != token.EQL || keyObj == nil {
			return false
		}
		isKey := func(e ast.Expr) bool {
			id, ok := core.Unparen(e).(*ast.Ident)
			return ok && info.ObjectOf(id) == keyObj
		}
		return (isKey(b.X) && !dependent(b.Y)) || (isKey(b.Y) && !dependent(b.X))
	}
	bad := ""
	var stack []ast.Node
	ast.Inspect(body, func(n ast.Node) bool {
		if n == nil {
			stack = stack[:len(stack)-1]
			return true
		}
		stack = append(stack, n)
		if _, ok := n.(*ast.FuncLit); ok && n != loop {
			return true
		}
		ret, ok := n.(*ast.ReturnStmt)
		if !ok || bad != "" {
			return true
		}
		var dep ast.Expr
		for _, res := range ret.Results {
			if isErrorType(info.TypeOf(res)) {
				continue
			}
			if tv, ok := info.Types[res]; ok && tv.Value != nil {
				continue
			}
			if dependent(res) {
				dep = res
			}
		}
		if dep == nil {
			return true
		}
		for _, anc := range stack {
			if is, ok := anc.(*ast.IfStmt); ok && is.Body.Pos() <= ret.Pos() && ret.End() <= is.Body.End() && uniqueKeyTest(is.Cond) {
				return true
			}
		}
		bad = "return of " + core.ExprStr(dep) + ", a value of the element met first: when more than one element passes the test, which one is returned depends on the iteration order"
		return true
	})
	return bad
}
