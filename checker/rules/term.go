package rules

import (
	"fmt"
	"go/ast"
	"go/token"
	"go/types"
	"os"
	"sort"
	"strings"

	"golang.org/x/tools/go/callgraph"
	"golang.org/x/tools/go/cfg"
	"golang.org/x/tools/go/packages"
	"golang.org/x/tools/go/ssa"

	"j5verif/checker/core"
)

// TermConfig configures R-TERM for a scope.
type TermConfig struct {
	// Positions: the property also states that reported positions lie inside the input (arms T-eof)
	Positions bool
	// Primitives: full names of functions each call of which consumes at
	// least one unit of input (token, byte) or reports failure.
	Primitives map[string]bool
	// Weak: functions that consume one unit of input but silently do nothing
	// once the input is exhausted (they keep yielding the sentinel).
	Weak map[string]bool
	// Sentinels: the end-of-input constants; SymbolFields / SymbolCalls: where
	// the current or next symbol is read.
	Sentinels    []string
	SymbolFields map[string]bool
	SymbolCalls  map[string]bool
	Table        string
	// MinLoops / MinSites: vacuity floors for T-loop and T-rec.
	MinLoops, MinSites int
	// DepthRels: module-relative packages whose input-driven recursions (T1) must also be bounded
	// by a constant depth guard (T-depth); MinDepthSites is the vacuity floor.
	DepthRels     []string
	MinDepthSites int
}

const parserPkg = core.Module + "/internal/bcl/internal/parser"

// DefaultTermConfig: JSON tokens and walker tag pops fail at the end of the
// input; the BCL lexer and token walker keep returning their EOF sentinel.
func DefaultTermConfig() TermConfig {
	const parserRel = "internal/bcl/internal/parser"
	an := core.AnchorFullName // follows a rename of the function
	return TermConfig{
		Primitives: map[string]bool{
			"(*encoding/json.Decoder).Token":                      true,
			"(*encoding/json.Decoder).Decode":                     true,
			an("internal/bcl/internal/walker", "popSet.popFirst"): true,
		},
		Weak: map[string]bool{
			an(parserRel, "Walker.popToken"): true,
			an(parserRel, "Lexer.next"):      true,
		},
		Sentinels:    []string{"internal/bcl/internal/parser.lexerEofChr", "internal/bcl/internal/parser.EOF"},
		SymbolFields: map[string]bool{"Lexer.ch": true, "Token.Type": true},
		SymbolCalls: map[string]bool{
			an(parserRel, "Lexer.peek"):      true,
			an(parserRel, "Walker.nextType"): true,
			an(parserRel, "Walker.peekType"): true,
		},
		Table: "term_sites",
	}
}

// Termination arms R-TERM over the scope:
//
//	T-rec: every strongly connected component (incl. self loops) of the
//	reachable module call graph is an obligation, discharged when removing
//	the functions that must consume input (T1) or carry a visited-set guard
//	(T2) leaves the component acyclic — every recursion cycle then either
//	consumes input or is cut by the visited set; otherwise a table line
//	(T3: descent over an acyclic carrier, named) is needed.
//
//	T-loop: every `for` statement without a range clause is an obligation,
//	discharged when it is a counted loop over a Len()/len() bound with a
//	unit increment, its body must-consumes input, or its condition shrinks
//	a slice that the body re-slices; otherwise a table line is needed.
func Termination(r *core.Run, sc *Scope, tc TermConfig) {
	r.Rule("R-TERM/T-rec", "every call site that stays inside a strongly connected component of the reachable module call graph (VTA) is an obligation. It is cut when it runs only after its frame consumed input or failed (T1: SSA must-dataflow, depth bounded by input length), only behind a visited-set guard or in the fresh-key branch of a visited-set probe (T2), or when it hands a strict sub-term of one of the caller's parameters to the callee and every descent step starts at a value of an allow-listed tree-shaped carrier (T3). Sites that still lie on a cycle of the remaining graph need a recorded reason")
	for _, cf := range carrierFamilies {
		r.Assumef("R-TERM carrier family %s is tree-shaped: %s", cf.Name, cf.Reason)
	}
	r.Rule("R-TERM/T-loop", "every non-range `for` loop is a counted loop over a fixed bound with a unit step, or its body must consume input on every iteration, or it strictly shrinks the slice its condition tests; anything else needs a recorded reason")
	g := r.P.VTA()
	bySSA := map[*ssa.Function]*ScopeFunc{}
	for _, f := range sc.Funcs {
		bySSA[f.SSA] = f
	}
	// ---- must-consume (SSA), probe functions and guard summaries
	all := map[string]bool{}
	for k := range tc.Primitives {
		all[k] = true
	}
	for k := range tc.Weak {
		all[k] = true
	}
	ci := mustConsume(sc, g, all)
	ciStrong := mustConsume(sc, g, tc.Primitives)
	mc := ci.mc
	sentinels := constsByName(r.P, tc.Sentinels)
	if len(tc.Sentinels) != len(sentinels) {
		r.Fatal("anchor: R-TERM end-of-input sentinels %v do not all resolve", tc.Sentinels)
	}
	r.Assumef("R-TERM input primitives: each call of %s consumes at least one unit of a finite input or reports failure; %s consume one unit but keep yielding the end-of-input sentinel once the input is exhausted (T-loop therefore also requires a sentinel test; T-rec assumes no recursive production accepts the sentinel token)", keysOf(tc.Primitives), keysOf(tc.Weak))
	probes := probeFunctions(sc, ci)
	guard := map[*ScopeFunc]bool{}
	for _, f := range sc.Funcs {
		if _, ok := visitedGuard(f.Pkg, f.Body); ok {
			guard[f] = true
		}
	}
	// closures inherit the guard of their parent when they capture the map (walkRefs closures)
	for _, f := range sc.Funcs {
		if p := f.SSA.Parent(); p != nil {
			if pf := bySSA[p]; pf != nil && guard[pf] {
				guard[f] = true
			}
		}
	}
	// ---- SCCs over the scope
	idx := map[*ScopeFunc]int{}
	for i, f := range sc.Funcs {
		idx[f] = i
	}
	// targets: the in-scope functions a call edge leads to, looking through
	// synthetic wrappers (promoted methods, bound-method thunks), which have no
	// syntax and are not scope functions themselves.
	var through func(fn *ssa.Function, seen map[*ssa.Function]bool, out map[*ScopeFunc]bool)
	through = func(fn *ssa.Function, seen map[*ssa.Function]bool, out map[*ScopeFunc]bool) {
		if t := bySSA[fn]; t != nil {
			out[t] = true
			return
		}
		if t := ci.byCanon[canonFn(fn)]; t != nil && fn.Syntax() != nil {
			out[t] = true // another instantiation of a generic scope function
			return
		}
		if !(strings.HasPrefix(fn.Synthetic, "wrapper for") || strings.HasPrefix(fn.Synthetic, "bound method wrapper") || strings.HasPrefix(fn.Synthetic, "thunk for")) || seen[fn] {
			return
		}
		seen[fn] = true
		if n := g.Nodes[fn]; n != nil {
			for _, e := range n.Out {
				through(e.Callee.Func, seen, out)
			}
		}
	}
	targets := func(e *callgraph.Edge) []*ScopeFunc {
		out := map[*ScopeFunc]bool{}
		through(e.Callee.Func, map[*ssa.Function]bool{}, out)
		var l []*ScopeFunc
		for t := range out {
			l = append(l, t)
		}
		sort.Slice(l, func(i, j int) bool { return l[i].Name < l[j].Name })
		return l
	}
	// The edge list of the recursion analysis: call-graph edges to scope
	// functions (through wrappers), plus, for calls whose callees are all
	// outside the module, edges to the function values passed as arguments —
	// an external higher-order function (protoreflect Range, sort.Slice, …)
	// may call them back synchronously.
	type tedge struct {
		site ssa.Instruction
		to   *ScopeFunc
	}
	edgesOf := map[*ScopeFunc][]tedge{}
	ncallbacks := 0
	for _, f := range sc.Funcs {
		n := g.Nodes[f.SSA]
		if n == nil {
			continue
		}
		hasInScope := map[ssa.Instruction]bool{}
		for _, e := range n.Out {
			for _, t := range targets(e) {
				edgesOf[f] = append(edgesOf[f], tedge{e.Site, t})
				if e.Site != nil {
					hasInScope[e.Site] = true
				}
			}
		}
		for _, blk := range f.SSA.Blocks {
			for _, ins := range blk.Instrs {
				call, ok := ins.(ssa.CallInstruction)
				if !ok || hasInScope[ins] {
					continue
				}
				for _, a := range call.Common().Args {
					for depth := 0; depth < 4; depth++ {
						switch x := a.(type) {
						case *ssa.ChangeType:
							a = x.X
							continue
						case *ssa.MakeInterface:
							a = x.X
							continue
						}
						break
					}
					var fn *ssa.Function
					switch x := a.(type) {
					case *ssa.MakeClosure:
						fn, _ = x.Fn.(*ssa.Function)
					case *ssa.Function:
						fn = x
					}
					if fn == nil {
						continue
					}
					out := map[*ScopeFunc]bool{}
					through(fn, map[*ssa.Function]bool{}, out)
					for t := range out {
						edgesOf[f] = append(edgesOf[f], tedge{ins, t})
						ncallbacks++
					}
				}
			}
		}
	}
	r.Analysed["callback_edges_through_external_functions"] = ncallbacks
	succ := func(f *ScopeFunc) []*ScopeFunc {
		var out []*ScopeFunc
		seen := map[*ScopeFunc]bool{}
		for _, e := range edgesOf[f] {
			if !seen[e.to] {
				seen[e.to] = true
				out = append(out, e.to)
			}
		}
		return out
	}
	if dbg := os.Getenv("J5CHECK_TERM_EDGES"); dbg != "" {
		for _, f := range sc.Funcs {
			if strings.Contains(f.Name, dbg) {
				for _, t := range succ(f) {
					fmt.Fprintf(os.Stderr, "EDGE %s -> %s\n", f.Name, t.Name)
				}
				if n := g.Nodes[f.SSA]; n != nil {
					for _, e := range n.Out {
						if bySSA[e.Callee.Func] == nil {
							fmt.Fprintf(os.Stderr, "EDGE(out of scope) %s -> %s\n", f.Name, e.Callee.Func)
						}
					}
				}
			}
		}
	}
	sccs := tarjan(sc.Funcs, succ)
	// pre-pass: the keys of all in-component call sites, so that a table line
	// whose own site no longer exists can follow the construct to the function
	// it moved to (helper extracted, function split or renamed)
	currentKeys := map[string]bool{}
	for _, comp := range sccs {
		inC := map[*ScopeFunc]bool{}
		for _, f := range comp {
			inC[f] = true
		}
		if len(comp) == 1 {
			self := false
			for _, t := range succ(comp[0]) {
				if t == comp[0] {
					self = true
				}
			}
			if !self {
				continue
			}
		}
		for _, f := range comp {
			calls := map[token.Pos]*ast.CallExpr{}
			f.InspectOwn(func(nd ast.Node) bool {
				if c, ok := nd.(*ast.CallExpr); ok {
					calls[c.Lparen] = c
				}
				return true
			})
			for _, e := range edgesOf[f] {
				if !inC[e.to] {
					continue
				}
				what := "→ " + shortFn(e.to.Name)
				if e.site != nil {
					if c := calls[e.site.Pos()]; c != nil {
						what = "call " + core.ExprStr(c.Fun)
					}
				}
				currentKeys["R-TERM/T-rec | "+siteKey(f, what)] = true
			}
		}
	}
	tableCut := func(key string) bool {
		full := "R-TERM/T-rec | " + key
		if r.InTable(tc.Table, full) {
			return true
		}
		return r.MovedLine(tc.Table, full, currentKeys) != ""
	}
	nrec, nsites, ndepth := 0, 0, 0
	for _, comp := range sccs {
		if len(comp) == 1 {
			self := false
			for _, t := range succ(comp[0]) {
				if t == comp[0] {
					self = true
				}
			}
			if !self {
				continue
			}
		}
		nrec++
		sort.Slice(comp, func(i, j int) bool { return comp[i].Name < comp[j].Name })
		inComp := map[*ScopeFunc]bool{}
		for _, f := range comp {
			inComp[f] = true
		}
		// One obligation per call site that stays inside the component. A
		// site is cut when it runs only after the frame consumed input (T1)
		// or only behind a visited-set guard / in the fresh-key branch of a
		// probe (T2). The edges of uncut sites form the residual graph; an
		// uncut site that is on no residual cycle is harmless.
		type site struct {
			f       *ScopeFunc
			key     string
			pos     token.Pos
			cut     string
			callees map[*ScopeFunc]bool
		}
		sites := map[string]*site{}
		var order []string
		resid := map[*ScopeFunc]map[*ScopeFunc]bool{}
		for _, f := range comp {
			n := g.Nodes[f.SSA]
			if n == nil {
				continue
			}
			calls := map[token.Pos]*ast.CallExpr{}
			f.InspectOwn(func(nd ast.Node) bool {
				if c, ok := nd.(*ast.CallExpr); ok {
					calls[c.Lparen] = c
				}
				return true
			})
			for _, e0 := range edgesOf[f] {
				e := struct{ Site ssa.Instruction }{e0.site}
				for _, t := range []*ScopeFunc{e0.to} {
					if !inComp[t] {
						continue
					}
					what := "→ " + shortFn(t.Name)
					pos := f.Node.Pos()
					var callExpr *ast.CallExpr
					if e.Site != nil {
						if c := calls[e.Site.Pos()]; c != nil {
							what = "call " + core.ExprStr(c.Fun)
							pos = c.Pos()
							callExpr = c
						}
					}
					k := siteKey(f, what)
					st := sites[k]
					if st == nil {
						st = &site{f: f, key: k, pos: pos, callees: map[*ScopeFunc]bool{}, cut: "?"}
						sites[k] = st
						order = append(order, k)
					}
					st.callees[t] = true
					cut := ""
					switch {
					case e.Site != nil && ci.before[e.Site]:
						cut = "T1: the call runs only after this frame consumed input (or failed), so the depth is bounded by the input length"
					case guard[f]:
						cut = "T2: the function carries a visited-set guard (membership test with early return + insertion)"
					case e.Site != nil && underFreshBranch(e.Site, probes, ci):
						cut = "T2: the call runs only in the branch where a visited-set probe reported a fresh key"
					case callExpr != nil:
						if why, ok := descendingCall(r.P, f, callExpr); ok {
							cut = "T3: " + why + "; the carrier is a finite tree, so the depth of this recursion is bounded by the depth of the value"
						}
					}
					// several SSA sites may share a key: all must be cut
					if st.cut == "?" {
						st.cut = cut
					} else if cut == "" {
						st.cut = ""
					}
				}
			}
		}
		for _, k := range order {
			st := sites[k]
			if st.cut == "" && !tableCut(st.key) && calleeLine(r, tc.Table, st.callees) == "" {
				for t := range st.callees {
					if resid[st.f] == nil {
						resid[st.f] = map[*ScopeFunc]bool{}
					}
					resid[st.f][t] = true
				}
			}
		}
		compOf := map[*ScopeFunc]int{}
		for i, c2 := range tarjan(comp, func(f *ScopeFunc) []*ScopeFunc {
			var out []*ScopeFunc
			for t := range resid[f] {
				out = append(out, t)
			}
			sort.Slice(out, func(i, j int) bool { return out[i].Name < out[j].Name })
			return out
		}) {
			if len(c2) > 1 || resid[c2[0]][c2[0]] {
				for _, f := range c2 {
					compOf[f] = i + 1
				}
			}
		}
		// T-depth: the T1 edges of the packages named in DepthRels, with the functions that carry a
		// depth guard taken out, must not contain a cycle
		if len(tc.DepthRels) > 0 {
			inDepthPkg := func(f *ScopeFunc) bool {
				for _, rel := range tc.DepthRels {
					if f.Pkg.PkgPath == core.Module+"/"+rel {
						return true
					}
				}
				return false
			}
			firstCall := map[*ScopeFunc]token.Pos{}
			t1 := map[*ScopeFunc]map[*ScopeFunc]bool{}
			var t1sites []*site
			for _, k := range order {
				st := sites[k]
				if !strings.HasPrefix(st.cut, "T1") || !inDepthPkg(st.f) {
					continue
				}
				t1sites = append(t1sites, st)
				if p, ok := firstCall[st.f]; !ok || st.pos < p {
					firstCall[st.f] = st.pos
				}
				for t := range st.callees {
					if t1[st.f] == nil {
						t1[st.f] = map[*ScopeFunc]bool{}
					}
					t1[st.f][t] = true
				}
			}
			guarded := map[*ScopeFunc]string{}
			for _, f := range comp {
				if p, ok := firstCall[f]; ok {
					if g := depthGuardOf(f, p); g != "" {
						guarded[f] = g
					}
				}
			}
			var gnames []string
			for f, g := range guarded {
				gnames = append(gnames, shortFn(f.Name)+" (`"+g+"`)")
			}
			sort.Strings(gnames)
			onDeep := map[*ScopeFunc]int{}
			for i, c2 := range tarjan(comp, func(f *ScopeFunc) []*ScopeFunc {
				if guarded[f] != "" {
					return nil
				}
				var out []*ScopeFunc
				for t := range t1[f] {
					if guarded[t] == "" {
						out = append(out, t)
					}
				}
				sort.Slice(out, func(i, j int) bool { return out[i].Name < out[j].Name })
				return out
			}) {
				if len(c2) > 1 || (t1[c2[0]][c2[0]] && guarded[c2[0]] == "") {
					for _, f := range c2 {
						onDeep[f] = i + 1
					}
				}
			}
			for _, st := range t1sites {
				ndepth++
				o := r.Add("R-TERM/T-depth", st.key, st.pos, "depth of the input-driven recursion through this call")
				deep := false
				if onDeep[st.f] != 0 && guarded[st.f] == "" {
					for t := range st.callees {
						if onDeep[t] == onDeep[st.f] {
							deep = true
						}
					}
				}
				if deep {
					o.Fail("this call lies on a recursion cycle whose depth nothing bounds but the length of the input (no function on it compares a nesting counter with a constant before recursing): a few megabytes of nested openers exhaust the goroutine stack, which is a fatal error, not a recoverable panic")
				} else {
					o.Auto("every cycle through this call passes a depth guard: %s", strings.Join(gnames, ", "))
				}
			}
		}
		sort.Strings(order)
		for _, k := range order {
			st := sites[k]
			nsites++
			o := r.Add("R-TERM/T-rec", st.key, st.pos, fmt.Sprintf("recursive call site inside the %d-function cycle around %s", len(comp), shortFn(comp[0].Name)))
			onCycle := false
			if st.cut == "" && compOf[st.f] != 0 {
				for t := range st.callees {
					if compOf[t] == compOf[st.f] {
						onCycle = true
					}
				}
			}
			switch {
			case st.cut != "":
				o.Auto("%s", st.cut)
			case r.Table(tc.Table, o):
			case r.MovedLine(tc.Table, o.Key, currentKeys) != "":
				r.TableKey(tc.Table, o, r.MovedLine(tc.Table, o.Key, currentKeys))
				o.Status += " [construct moved]"
			case calleeLine(r, tc.Table, st.callees) != "":
				// a line of the form "R-TERM/T-rec | → callee" covers every call of that function inside the component
				r.TableKey(tc.Table, o, calleeLine(r, tc.Table, st.callees))
			case !onCycle:
				o.Auto("not on a cycle once the call sites with a progress argument (input consumed first, visited-set guard, structural descent, recorded reason) are removed from the component")
			default:
				o.Fail("this call closes a recursion cycle that neither consumes input first nor is cut by a visited set")
			}
		}
	}
	if len(tc.DepthRels) > 0 {
		r.Rule("R-TERM/T-depth", "for every recursive call site of the packages "+strings.Join(tc.DepthRels, ", ")+" that T-rec discharges by T1 (input consumed first: depth bounded only by the input length): take the functions of the cycle that, before their first call into the cycle, compare a counter (a field or a variable) with a constant in an `if` whose body returns and increment that counter; with those functions removed the T1 edges form no cycle — so the nesting depth the input can force is bounded by a constant")
		r.Floor("R-TERM/T-depth", tc.MinDepthSites, "input-driven recursion of the parser / decoder")
	}
	_ = ndepth
	r.Analysed["recursive_call_sites"] = nsites
	r.Analysed["recursion_cycles"] = nrec
	r.Analysed["must_consume_functions"] = countTrue(mc)

	// ---- loops
	nloops := 0
	for _, f := range sc.Funcs {
		info := f.Pkg.TypesInfo
		n := 0
		f.InspectOwn(func(nd ast.Node) bool {
			fs, ok := nd.(*ast.ForStmt)
			if !ok {
				return true
			}
			n++
			nloops++
			cond := "true"
			if fs.Cond != nil {
				cond = core.ExprStr(fs.Cond)
			}
			o := r.Add("R-TERM/T-loop", siteKey(f, fmt.Sprintf("for %s", cond)), fs.Pos(), "loop `for "+cond+"`")
			em := &eofModel{info: info, decl: core.EnclosingFunc(f.Pkg, fs.Pos()), sentinels: sentinels, fields: tc.SymbolFields, calls: tc.SymbolCalls, prog: r.P}
			if why, ok := loopTerminates(info, f, fs, ci, ciStrong, em, loopCFG(f)); ok {
				o.Auto("%s", why)
			} else if !r.Table(tc.Table, o) {
				o.Fail("no progress argument recognised for this loop (%s)", why)
			}
			return true
		})
	}
	r.Analysed["non_range_loops"] = nloops

	// ---- T-err: T1 and the loop rule count a call as progress "or failure";
	// the failure must be visible to the caller, so the error / ok result of
	// a consuming call may not be dropped.
	r.Rule("R-TERM/T-err", "the error (or ok) result of every call that T-rec/T-loop count as consuming input is bound to a variable or returned — a dropped failure would let the caller continue without progress")
	nerr := 0
	for _, f := range sc.Funcs {
		info := f.Pkg.TypesInfo
		var stack []ast.Node
		ast.Inspect(f.Body, func(nd ast.Node) bool {
			if nd == nil {
				stack = stack[:len(stack)-1]
				return true
			}
			stack = append(stack, nd)
			if fl, ok := nd.(*ast.FuncLit); ok && ast.Node(fl) != f.Node {
				stack = stack[:len(stack)-1]
				return false
			}
			c, ok := nd.(*ast.CallExpr)
			if !ok || !ci.consumes[c.Lparen] {
				return true
			}
			tup, _ := info.TypeOf(c).(*types.Tuple)
			var last types.Type
			n := 1
			switch {
			case tup != nil && tup.Len() > 0:
				last, n = tup.At(tup.Len()-1).Type(), tup.Len()
			case tup == nil && info.TypeOf(c) != nil:
				last = info.TypeOf(c)
			}
			if last == nil {
				return true
			}
			isErr := types.Identical(last, types.Universe.Lookup("error").Type())
			isBool := false
			if b, ok := last.Underlying().(*types.Basic); ok && b.Kind() == types.Bool && n == 2 {
				isBool = true
			}
			if !isErr && !isBool {
				return true
			}
			nerr++
			o := r.Add("R-TERM/T-err", siteKey(f, "call "+core.ExprStr(c.Fun)), c.Pos(), "failure result of consuming call "+core.ExprStr(c.Fun))
			var parent ast.Node
			if len(stack) >= 2 {
				parent = stack[len(stack)-2]
			}
			switch p := parent.(type) {
			case *ast.ExprStmt:
				o.Fail("the call's failure result is dropped (expression statement)")
			case *ast.AssignStmt:
				if len(p.Rhs) == 1 && len(p.Lhs) == n {
					if id, ok := p.Lhs[n-1].(*ast.Ident); ok && id.Name == "_" {
						o.Fail("the call's failure result is assigned to the blank identifier")
						return true
					}
				}
				o.Auto("failure result bound to a variable")
			default:
				o.Auto("failure result used directly (returned, tested or passed on)")
			}
			return true
		})
	}
	r.Analysed["consuming_calls_with_failure_result"] = nerr
	if tc.MinLoops > 0 {
		r.Floor("R-TERM/T-loop", tc.MinLoops, "non-range loops reachable from the entry points")
	}
	if tc.MinSites > 0 {
		r.Floor("R-TERM/T-rec", tc.MinSites, "call sites inside recursion cycles reachable from the entry points")
	}
	CostBounds(r, sc, tc.Table)
	if tc.Positions {
		SentinelRuns(r, sc, tc, sentinels)
	}
}

func keysOf(m map[string]bool) string {
	var ks []string
	for k := range m {
		ks = append(ks, shortFn(k))
	}
	sort.Strings(ks)
	return strings.Join(ks, ", ")
}

func shortFn(s string) string {
	if i := strings.LastIndex(s, "/"); i >= 0 {
		return s[i+1:]
	}
	return s
}

func restNames(fs []*ScopeFunc) string {
	var n []string
	for _, f := range fs {
		n = append(n, shortFn(f.Name))
	}
	sort.Strings(n)
	if len(n) > 8 {
		n = append(n[:8], "…")
	}
	return strings.Join(n, ", ")
}

func countTrue(m map[*ScopeFunc]bool) int {
	n := 0
	for _, v := range m {
		if v {
			n++
		}
	}
	return n
}

// consumeInfo is the SSA summary behind T1.
type consumeInfo struct {
	mc       map[*ScopeFunc]bool      // must consume (or fail) on every path to a return
	before   map[ssa.Instruction]bool // call instruction executes only after a consuming call in the same frame
	consumes map[token.Pos]bool       // Lparen of calls that consume (all callees primitive / must-consume)
	callees  map[ssa.Instruction][]*ssa.Function
	byCanon  map[*ssa.Function]*ScopeFunc
	errFns   map[*ssa.Function]bool // functions whose error result is never nil
	// closures created only after their parent frame consumed input
	inherited map[*ssa.Function]bool
}

func canonFn(f *ssa.Function) *ssa.Function {
	if o := f.Origin(); o != nil {
		return o
	}
	return f
}

// mustConsume computes, over the SSA form and the VTA call graph:
//
//   - a call instruction *consumes* when every possible callee is an input
//     primitive or a must-consume function;
//   - a function *must-consumes* when on every path from its entry to a
//     return either a consuming call was executed or the returned error is
//     provably non-nil (constructed by fmt.Errorf / errors.New / a conversion
//     of a concrete value / an always-failing module function, or the return
//     is dominated by the true branch of `err != nil` for that very value);
//   - before[c]: the must-dataflow fact "a consuming call has executed in
//     this frame" at call instruction c.
//
// All three are computed to a joint fixpoint (monotone: facts only become
// true).
func mustConsume(sc *Scope, g *callgraph.Graph, prims map[string]bool) *consumeInfo {
	ci := &consumeInfo{
		mc: map[*ScopeFunc]bool{}, before: map[ssa.Instruction]bool{}, consumes: map[token.Pos]bool{},
		callees: map[ssa.Instruction][]*ssa.Function{}, byCanon: map[*ssa.Function]*ScopeFunc{}, errFns: map[*ssa.Function]bool{},
		inherited: map[*ssa.Function]bool{},
	}
	for _, f := range sc.Funcs {
		ci.byCanon[canonFn(f.SSA)] = f
	}
	for _, f := range sc.Funcs {
		n := g.Nodes[f.SSA]
		if n == nil {
			continue
		}
		for _, e := range n.Out {
			if e.Site != nil {
				ci.callees[e.Site] = append(ci.callees[e.Site], e.Callee.Func)
			}
		}
	}
	// look through synthetic wrappers (promoted methods, thunks) to the real callees
	isWrapper := func(fn *ssa.Function) bool {
		return strings.HasPrefix(fn.Synthetic, "wrapper for") || strings.HasPrefix(fn.Synthetic, "bound method wrapper") || strings.HasPrefix(fn.Synthetic, "thunk for")
	}
	unwrapMemo := map[*ssa.Function][]*ssa.Function{}
	var unwrap func(fn *ssa.Function, depth int) []*ssa.Function
	unwrap = func(fn *ssa.Function, depth int) []*ssa.Function {
		if !isWrapper(fn) || depth > 3 {
			return []*ssa.Function{fn}
		}
		if m, ok := unwrapMemo[fn]; ok {
			return m
		}
		unwrapMemo[fn] = []*ssa.Function{fn} // cycle guard
		n := g.Nodes[fn]
		if n == nil || len(n.Out) == 0 || len(n.Out) > 8 {
			return []*ssa.Function{fn}
		}
		var out []*ssa.Function
		for _, e := range n.Out {
			out = append(out, unwrap(e.Callee.Func, depth+1)...)
		}
		unwrapMemo[fn] = out
		return out
	}
	calleesOf := func(c ssa.CallInstruction) []*ssa.Function {
		var raw []*ssa.Function
		if s := c.Common().StaticCallee(); s != nil {
			raw = []*ssa.Function{s}
		} else {
			raw = ci.callees[c]
		}
		var out []*ssa.Function
		for _, f := range raw {
			out = append(out, unwrap(f, 0)...)
		}
		return out
	}
	// ---- functions that always return a non-nil error
	var nonNilErr func(v ssa.Value, depth int) bool
	nonNilErr = func(v ssa.Value, depth int) bool {
		if depth > 4 {
			return false
		}
		switch x := v.(type) {
		case *ssa.MakeInterface:
			return true
		case *ssa.Phi:
			for _, e := range x.Edges {
				if !nonNilErr(e, depth+1) {
					return false
				}
			}
			return true
		case *ssa.Call:
			cs := calleesOf(x)
			if len(cs) == 0 {
				return false
			}
			for _, c := range cs {
				switch c.String() {
				case "fmt.Errorf", "errors.New":
					continue
				}
				if !ci.errFns[canonFn(c)] {
					return false
				}
			}
			return true
		}
		return false
	}
	errorResult := func(fn *ssa.Function) int {
		res := fn.Signature.Results()
		if res.Len() == 0 {
			return -1
		}
		if types.Identical(res.At(res.Len()-1).Type(), types.Universe.Lookup("error").Type()) {
			return res.Len() - 1
		}
		return -1
	}
	for changed := true; changed; {
		changed = false
		for _, f := range sc.Funcs {
			fn := f.SSA
			if ci.errFns[canonFn(fn)] || errorResult(fn) != 0 || fn.Signature.Results().Len() != 1 {
				continue
			}
			all, any := true, false
			for _, b := range fn.Blocks {
				if ret, ok := b.Instrs[len(b.Instrs)-1].(*ssa.Return); ok {
					any = true
					if !nonNilErr(ret.Results[0], 0) {
						all = false
					}
				}
			}
			if all && any {
				ci.errFns[canonFn(fn)] = true
				changed = true
			}
		}
	}
	// ---- is this return an error exit?
	errorExit := func(fn *ssa.Function, ret *ssa.Return) bool {
		i := errorResult(fn)
		if i < 0 || i >= len(ret.Results) {
			return false
		}
		v := ret.Results[i]
		if nonNilErr(v, 0) {
			return true
		}
		for _, b := range fn.Blocks {
			if len(b.Preds) != 1 {
				continue
			}
			p := b.Preds[0]
			iff, ok := p.Instrs[len(p.Instrs)-1].(*ssa.If)
			if !ok {
				continue
			}
			bin, ok := iff.Cond.(*ssa.BinOp)
			if !ok {
				continue
			}
			isNil := func(x ssa.Value) bool { c, ok := x.(*ssa.Const); return ok && c.IsNil() }
			var tested ssa.Value
			switch {
			case isNil(bin.Y):
				tested = bin.X
			case isNil(bin.X):
				tested = bin.Y
			default:
				continue
			}
			if tested != v {
				continue
			}
			if (bin.Op == token.NEQ && p.Succs[0] == b) || (bin.Op == token.EQL && p.Succs[1] == b) {
				if b.Dominates(ret.Block()) {
					return true
				}
			}
		}
		return false
	}
	consuming := func(c *ssa.Call) bool {
		cs := calleesOf(c)
		if len(cs) == 0 {
			return false
		}
		for _, callee := range cs {
			if prims[callee.String()] || prims[canonFn(callee).String()] || prims[ssaRecordedName(callee)] {
				continue
			}
			if t := ci.byCanon[canonFn(callee)]; t != nil && ci.mc[t] {
				continue
			}
			return false
		}
		return true
	}
	// ---- per-function must-dataflow
	closureSeen := map[*ssa.Function]bool{}
	analyse := func(f *ScopeFunc) bool {
		fn := f.SSA
		if len(fn.Blocks) == 0 {
			return false
		}
		out := make([]bool, len(fn.Blocks))
		for i := range out {
			out[i] = true // optimistic
		}
		in := func(b *ssa.BasicBlock) bool {
			if b.Index == 0 {
				return false
			}
			if len(b.Preds) == 0 {
				return true // unreachable
			}
			for _, p := range b.Preds {
				if !out[p.Index] {
					return false
				}
			}
			return true
		}
		for changed := true; changed; {
			changed = false
			for _, b := range fn.Blocks {
				st := in(b)
				for _, ins := range b.Instrs {
					if c, ok := ins.(*ssa.Call); ok && consuming(c) {
						st = true
					}
				}
				if out[b.Index] != st {
					out[b.Index] = st
					changed = true
				}
			}
		}
		isMC := true
		for _, b := range fn.Blocks {
			st := in(b)
			for _, ins := range b.Instrs {
				switch x := ins.(type) {
				case *ssa.Call:
					if st || ci.inherited[fn] {
						ci.before[x] = true
					}
					if consuming(x) {
						st = true
						ci.consumes[x.Pos()] = true
					}
				case *ssa.MakeClosure:
					// a closure created only after the frame consumed input runs, when it
					// runs, after that consumption (used for call sites, not for must-consume)
					if cf, ok := x.Fn.(*ssa.Function); ok {
						v := st || ci.inherited[fn]
						if prev, seen := closureSeen[cf]; seen {
							v = v && prev
						}
						closureSeen[cf] = v
					}
				case *ssa.Return:
					if !st && !errorExit(fn, x) {
						isMC = false
					}
				}
			}
		}
		return isMC
	}
	for changed := true; changed; {
		changed = false
		closureSeen = map[*ssa.Function]bool{}
		for _, f := range sc.Funcs {
			was := ci.mc[f]
			if analyse(f) && !was {
				ci.mc[f] = true
				changed = true
			}
		}
		for cf, v := range closureSeen {
			if v && !ci.inherited[cf] {
				ci.inherited[cf] = true
				changed = true
			}
		}
		// an unexported function all of whose call sites (in the reachable set) are static
		// calls made after the caller's frame consumed input is itself entered only after a
		// consumption that belongs to this very invocation: what holds for a closure created
		// after consumption holds for a block of code moved into a helper
		for _, f := range sc.Funcs {
			fn := f.SSA
			if ci.inherited[fn] || fn.Parent() != nil || fn.Object() == nil || fn.Object().Exported() {
				continue
			}
			n := g.Nodes[fn]
			if n == nil || len(n.In) == 0 {
				continue
			}
			all, any := true, false
			for _, e := range n.In {
				if e.Caller == nil || ci.byCanon[canonFn(e.Caller.Func)] == nil {
					continue // caller outside the reachable set
				}
				any = true
				c, isCall := e.Site.(*ssa.Call)
				if !isCall || c.Common().StaticCallee() == nil || canonFn(c.Common().StaticCallee()) != canonFn(fn) || !ci.before[c] {
					all = false
					break
				}
			}
			if all && any {
				ci.inherited[fn] = true
				changed = true
			}
		}
	}
	return ci
}

// probeFunctions: functions of shape `(T, bool)` that test a map for a key,
// return (existing, true) when present and otherwise insert and return
// (new, false) — plus wrappers that forward such a call. A caller that
// recurses only in the "did not exist" branch is cut by the visited set (T2):
// each such branch adds a new key and the key space (names of one descriptor
// set) is finite.
func probeFunctions(sc *Scope, ci *consumeInfo) map[*ssa.Function]bool {
	probes := map[*ssa.Function]bool{}
	lastBool := func(fn *ssa.Function) bool {
		res := fn.Signature.Results()
		if res.Len() != 2 {
			return false
		}
		b, ok := res.At(1).Type().Underlying().(*types.Basic)
		return ok && b.Kind() == types.Bool
	}
	for _, f := range sc.Funcs {
		if !lastBool(f.SSA) {
			continue
		}
		if _, ok := visitedGuard(f.Pkg, f.Body); !ok {
			continue
		}
		// the early return must report true and the insertion path false
		sawTrue, sawFalse, other := false, false, false
		for _, b := range f.SSA.Blocks {
			if ret, ok := b.Instrs[len(b.Instrs)-1].(*ssa.Return); ok {
				if c, ok := ret.Results[1].(*ssa.Const); ok && c.Value != nil {
					if c.Value.String() == "true" {
						sawTrue = true
					} else {
						sawFalse = true
					}
				} else {
					other = true
				}
			}
		}
		if sawTrue && sawFalse && !other {
			probes[canonFn(f.SSA)] = true
		}
	}
	for changed := true; changed; {
		changed = false
		for _, f := range sc.Funcs {
			if probes[canonFn(f.SSA)] || !lastBool(f.SSA) {
				continue
			}
			ok, any := true, false
			for _, b := range f.SSA.Blocks {
				ret, isRet := b.Instrs[len(b.Instrs)-1].(*ssa.Return)
				if !isRet {
					continue
				}
				any = true
				ex, isEx := ret.Results[1].(*ssa.Extract)
				if !isEx || ex.Index != 1 || !isProbeCall(ex.Tuple, probes, ci) {
					ok = false
				}
			}
			if ok && any {
				probes[canonFn(f.SSA)] = true
				changed = true
			}
		}
	}
	return probes
}

func isProbeCall(v ssa.Value, probes map[*ssa.Function]bool, ci *consumeInfo) bool {
	c, ok := v.(*ssa.Call)
	if !ok {
		return false
	}
	var cs []*ssa.Function
	if s := c.Common().StaticCallee(); s != nil {
		cs = []*ssa.Function{s}
	} else {
		cs = ci.callees[c]
	}
	if len(cs) == 0 {
		return false
	}
	for _, f := range cs {
		if !probes[canonFn(f)] {
			return false
		}
	}
	return true
}

// underFreshBranch: the call executes only where a probe reported "did not
// exist" — its block is dominated by the false successor of `if existed`.
func underFreshBranch(site ssa.Instruction, probes map[*ssa.Function]bool, ci *consumeInfo) bool {
	blk := site.Block()
	for _, b := range blk.Parent().Blocks {
		if len(b.Preds) != 1 {
			continue
		}
		p := b.Preds[0]
		iff, ok := p.Instrs[len(p.Instrs)-1].(*ssa.If)
		if !ok || p.Succs[1] != b {
			continue
		}
		ex, ok := iff.Cond.(*ssa.Extract)
		if !ok || ex.Index != 1 || !isProbeCall(ex.Tuple, probes, ci) {
			continue
		}
		if b.Dominates(blk) {
			return true
		}
	}
	return false
}

// visitedGuard: membership test on a map with early return plus insertion
// into the same map somewhere in the body (see props/c15.go for the forms).
func visitedGuard(pk *packages.Package, body ast.Node) (string, bool) {
	info := pk.TypesInfo
	tested := map[string]bool{}
	stored := map[string]bool{}
	isMap := func(e ast.Expr) bool {
		t := info.TypeOf(e)
		if t == nil {
			return false
		}
		_, ok := t.Underlying().(*types.Map)
		return ok
	}
	endsInReturn := func(l []ast.Stmt) bool {
		if len(l) == 0 {
			return false
		}
		_, ok := l[len(l)-1].(*ast.ReturnStmt)
		return ok
	}
	ast.Inspect(body, func(n ast.Node) bool {
		var list []ast.Stmt
		switch b := n.(type) {
		case *ast.BlockStmt:
			list = b.List
		case *ast.CaseClause:
			list = b.Body
		}
		for i := 0; i+1 < len(list); i++ {
			as, ok := list[i].(*ast.AssignStmt)
			if !ok || len(as.Lhs) != 2 || len(as.Rhs) != 1 {
				continue
			}
			ix, ok := core.Unparen(as.Rhs[0]).(*ast.IndexExpr)
			if !ok || !isMap(ix.X) {
				continue
			}
			ifs, ok := list[i+1].(*ast.IfStmt)
			if !ok {
				continue
			}
			if core.ExprStr(ifs.Cond) == core.ExprStr(as.Lhs[1]) && endsInReturn(ifs.Body.List) {
				tested[core.ExprStr(ix.X)] = true
			}
			// the same test the other way round: `if !found { …; return }` directly followed by
			// the return for a key that is present
			if u, isNot := core.Unparen(ifs.Cond).(*ast.UnaryExpr); isNot && u.Op == token.NOT && core.ExprStr(u.X) == core.ExprStr(as.Lhs[1]) && ifs.Else == nil && endsInReturn(ifs.Body.List) && i+2 < len(list) {
				if _, isRet := list[i+2].(*ast.ReturnStmt); isRet {
					tested[core.ExprStr(ix.X)] = true
				}
			}
		}
		switch x := n.(type) {
		case *ast.IfStmt:
			var ix *ast.IndexExpr
			if as, ok := x.Init.(*ast.AssignStmt); ok && len(as.Rhs) == 1 {
				ix, _ = core.Unparen(as.Rhs[0]).(*ast.IndexExpr)
			} else {
				ix, _ = core.Unparen(x.Cond).(*ast.IndexExpr)
			}
			if ix != nil && isMap(ix.X) && endsInReturn(x.Body.List) {
				tested[core.ExprStr(ix.X)] = true
			}
		case *ast.AssignStmt:
			for _, l := range x.Lhs {
				if ix, ok := l.(*ast.IndexExpr); ok && isMap(ix.X) {
					stored[core.ExprStr(ix.X)] = true
				}
			}
		case *ast.CallExpr:
			// the insertion made by a helper of the same package on its receiver or a
			// parameter: `p.declare(k)` with `func (x *T) declare(k) { x.m[k] = … }` stores
			// into p.m
			for _, m := range helperMapStores(pk, x) {
				stored[m] = true
			}
		}
		return true
	})
	for m := range tested {
		if stored[m] {
			return "visited set " + m, true
		}
	}
	return "", false
}

// helperMapStores lists the maps a same-package callee stores into, spelled in the caller's
// terms: the callee's receiver and parameters are replaced by the call's receiver and
// arguments. Stores into anything else of the callee are not reported.
func helperMapStores(pk *packages.Package, call *ast.CallExpr) []string {
	info := pk.TypesInfo
	fn := core.CalleeFunc(info, call)
	if fn == nil || fn.Pkg() != pk.Types {
		return nil
	}
	fd := core.DeclOf(pk, fn.Origin())
	if fd == nil || fd.Body == nil {
		return nil
	}
	subst := map[types.Object]string{}
	if fd.Recv != nil && len(fd.Recv.List) == 1 && len(fd.Recv.List[0].Names) == 1 {
		if sel, ok := call.Fun.(*ast.SelectorExpr); ok {
			subst[info.Defs[fd.Recv.List[0].Names[0]]] = core.ExprStr(sel.X)
		}
	}
	i := 0
	for _, fl := range fd.Type.Params.List {
		for _, nm := range fl.Names {
			if i < len(call.Args) {
				subst[info.Defs[nm]] = core.ExprStr(call.Args[i])
			}
			i++
		}
	}
	var out []string
	ast.Inspect(fd.Body, func(n ast.Node) bool {
		as, ok := n.(*ast.AssignStmt)
		if !ok {
			return true
		}
		for _, l := range as.Lhs {
			ix, ok := l.(*ast.IndexExpr)
			if !ok {
				continue
			}
			if t := info.TypeOf(ix.X); t == nil {
				continue
			} else if _, isMap := t.Underlying().(*types.Map); !isMap {
				continue
			}
			// root identifier of the map expression
			root := ix.X
			for {
				if sel, ok := root.(*ast.SelectorExpr); ok {
					root = sel.X
					continue
				}
				break
			}
			id, ok := root.(*ast.Ident)
			if !ok {
				continue
			}
			rep, ok := subst[info.Uses[id]]
			if !ok {
				continue
			}
			full := core.ExprStr(ix.X)
			out = append(out, rep+full[len(id.Name):])
		}
		return true
	})
	return out
}

// loopTerminates recognises the progress idioms.
func loopTerminates(info *types.Info, f *ScopeFunc, fs *ast.ForStmt, ci, ciStrong *consumeInfo, em *eofModel, g *cfg.CFG) (string, bool) {
	// counted loop: for i := a; i < bound; i++ with i not assigned in the body
	if fs.Init != nil && fs.Cond != nil && fs.Post != nil {
		if inc, ok := fs.Post.(*ast.IncDecStmt); ok {
			if id, ok := inc.X.(*ast.Ident); ok {
				if b, ok := core.Unparen(fs.Cond).(*ast.BinaryExpr); ok && core.ExprStr(b.X) == id.Name && (b.Op == token.LSS || b.Op == token.LEQ || b.Op == token.GTR || b.Op == token.GEQ || b.Op == token.NEQ) {
					assigned := false
					ast.Inspect(fs.Body, func(n ast.Node) bool {
						switch x := n.(type) {
						case *ast.AssignStmt:
							for _, l := range x.Lhs {
								if core.ExprStr(l) == id.Name {
									assigned = true
								}
							}
						case *ast.IncDecStmt:
							if core.ExprStr(x.X) == id.Name {
								assigned = true
							}
						}
						return true
					})
					if !assigned {
						return fmt.Sprintf("counted loop: %s steps by one towards %s and is not modified in the body", id.Name, core.ExprStr(b.Y)), true
					}
					return "the loop counter is modified inside the body", false
				}
			}
		}
	}
	// body must-consumes (go/cfg blocks; consuming calls are the
	// SSA-resolved ones, matched by their Lparen position)
	callsIn := func(set map[token.Pos]bool) func(ast.Node) bool {
		return func(e ast.Node) bool {
			found := false
			ast.Inspect(e, func(n ast.Node) bool {
				if _, ok := n.(*ast.FuncLit); ok {
					return false
				}
				if c, ok := n.(*ast.CallExpr); ok && set[c.Lparen] {
					found = true
				}
				return !found
			})
			return found
		}
	}
	progressWhy := ""
	if g != nil {
		why, ok := loopProgress(g, fs, callsIn(ciStrong.consumes), callsIn(ci.consumes), em)
		if ok {
			return why, true
		}
		progressWhy = why
	}
	// probing a finite map with a strictly increasing key: for m[k] { k++ }
	if fs.Cond != nil {
		if ix, ok := core.Unparen(fs.Cond).(*ast.IndexExpr); ok {
			if _, isMap := info.TypeOf(ix.X).Underlying().(*types.Map); isMap {
				if id, ok := ix.Index.(*ast.Ident); ok {
					steps, other := 0, 0
					ast.Inspect(fs.Body, func(n ast.Node) bool {
						switch x := n.(type) {
						case *ast.IncDecStmt:
							if core.ExprStr(x.X) == id.Name && x.Tok == token.INC {
								steps++
							} else if core.ExprStr(x.X) == id.Name {
								other++
							}
						case *ast.AssignStmt:
							for _, l := range x.Lhs {
								if core.ExprStr(l) == id.Name {
									other++
								}
							}
						}
						return true
					})
					if steps > 0 && other == 0 && len(fs.Body.List) == 1 {
						return "the key " + id.Name + " only increases and the loop continues only while it is present in the map " + core.ExprStr(ix.X) + ", which has finitely many keys", true
					}
				}
			}
		}
	}
	// shrinking slice: cond mentions len(X) and body assigns X = X[k:] / X, … = X[0], X[1:]
	if fs.Cond != nil {
		var shr string
		ast.Inspect(fs.Cond, func(n ast.Node) bool {
			if c, ok := n.(*ast.CallExpr); ok {
				if le, ok := lenArg(info, c); ok {
					shr = core.ExprStr(le)
				}
			}
			return true
		})
		if shr != "" {
			ok := false
			for _, st := range fs.Body.List {
				if as, isAs := st.(*ast.AssignStmt); isAs {
					for i, l := range as.Lhs {
						if core.ExprStr(l) != shr || i >= len(as.Rhs) && len(as.Rhs) != 1 {
							continue
						}
						rhs := as.Rhs[len(as.Rhs)-1]
						if len(as.Rhs) == len(as.Lhs) {
							rhs = as.Rhs[i]
						}
						if se, isSl := core.Unparen(rhs).(*ast.SliceExpr); isSl && core.ExprStr(se.X) == shr && se.Low != nil {
							if k, isC := core.ConstInt(info, se.Low); isC && k >= 1 {
								ok = true
							}
						}
						// dropping from the end: x = x[:len(x)-k]
						if se, isSl := core.Unparen(rhs).(*ast.SliceExpr); isSl && core.ExprStr(se.X) == shr && se.Low == nil && se.High != nil {
							if b, isB := core.Unparen(se.High).(*ast.BinaryExpr); isB && b.Op == token.SUB && core.ExprStr(b.X) == "len("+shr+")" {
								if k, isC := core.ConstInt(info, b.Y); isC && k >= 1 {
									ok = true
								}
							}
						}
					}
				}
			}
			if ok {
				return "each iteration drops at least one element of " + shr + ", whose length the condition tests", true
			}
		}
	}
	return "not a counted loop, no shrinking slice, and " + progressWhy, false
}

func stmtExpr(s ast.Stmt) ast.Expr {
	switch x := s.(type) {
	case *ast.ExprStmt:
		return x.X
	case *ast.AssignStmt:
		return x.Rhs[0]
	}
	return &ast.Ident{Name: "…"}
}

func firstLine(s string) string {
	if len(s) > 60 {
		return s[:60]
	}
	return s
}

func hasContinue(n ast.Node) bool {
	found := false
	ast.Inspect(n, func(x ast.Node) bool {
		if b, ok := x.(*ast.BranchStmt); ok && b.Tok == token.CONTINUE {
			found = true
		}
		if _, ok := x.(*ast.FuncLit); ok {
			return false
		}
		return !found
	})
	return found
}

// tarjan computes strongly connected components.
func tarjan(nodes []*ScopeFunc, succ func(*ScopeFunc) []*ScopeFunc) [][]*ScopeFunc {
	index := map[*ScopeFunc]int{}
	low := map[*ScopeFunc]int{}
	on := map[*ScopeFunc]bool{}
	inSet := map[*ScopeFunc]bool{}
	for _, n := range nodes {
		inSet[n] = true
	}
	var stack []*ScopeFunc
	var out [][]*ScopeFunc
	next := 0
	var strong func(v *ScopeFunc)
	strong = func(v *ScopeFunc) {
		index[v] = next
		low[v] = next
		next++
		stack = append(stack, v)
		on[v] = true
		for _, w := range succ(v) {
			if !inSet[w] {
				continue
			}
			if _, seen := index[w]; !seen {
				strong(w)
				if low[w] < low[v] {
					low[v] = low[w]
				}
			} else if on[w] && index[w] < low[v] {
				low[v] = index[w]
			}
		}
		if low[v] == index[v] {
			var comp []*ScopeFunc
			for {
				w := stack[len(stack)-1]
				stack = stack[:len(stack)-1]
				on[w] = false
				comp = append(comp, w)
				if w == v {
					break
				}
			}
			out = append(out, comp)
		}
	}
	for _, n := range nodes {
		if _, seen := index[n]; !seen {
			strong(n)
		}
	}
	return out
}

// loopCFG builds the go/cfg graph of the function body.
func loopCFG(f *ScopeFunc) *cfg.CFG {
	return cfg.New(f.Body, func(*ast.CallExpr) bool { return true })
}

// CostBounds arms R-TERM/T-cost over the scope: values whose *magnitude* (not
// length) is controlled by the input must be bounded before an operation whose
// cost grows with the magnitude. A decimal parsed from text carries an
// exponent of up to 2^31; String, BigInt, IntPart, Round, arithmetic with
// another decimal … all expand it to 10^exp. The only accepted discharge is an
// explicit test of Exponent() that leaves the function, placed before any
// other use of the value.
func CostBounds(r *core.Run, sc *Scope, table string) {
	r.Rule("R-TERM/T-cost", "every shopspring decimal parsed from text (decimal.NewFromString / RequireFromString) in the reachable set is passed through `if d.Exponent() > K || d.Exponent() < -K { return … }` before any other use: otherwise a few bytes of input (\"1e999999999\") make String/BigInt/arithmetic expand 10^exp; big.Int.Exp and big.Float text parsing are listed as well")
	n := 0
	for _, f := range sc.Funcs {
		info := f.Pkg.TypesInfo
		f.InspectOwn(func(nd ast.Node) bool {
			as, ok := nd.(*ast.AssignStmt)
			var call *ast.CallExpr
			if ok && len(as.Rhs) == 1 {
				call, _ = core.Unparen(as.Rhs[0]).(*ast.CallExpr)
			}
			if call == nil {
				if c, isCall := nd.(*ast.CallExpr); isCall {
					name := core.CalleeName(info, c)
					if name == "(*math/big.Int).Exp" || name == "(*math/big.Float).SetString" || name == "(*math/big.Float).Parse" {
						n++
						o := r.Add("R-TERM/T-cost", siteKey(f, "call "+core.ExprStr(c.Fun)), c.Pos(), "big-number operation whose cost grows with the magnitude of its operand")
						if !r.Table(table, o) {
							o.Fail("%s on a value that may come from the input: cost is not bounded by the input length", name)
						}
					}
				}
				return true
			}
			name := core.CalleeName(info, call)
			if !strings.HasSuffix(name, "shopspring/decimal.NewFromString") && !strings.HasSuffix(name, "shopspring/decimal.RequireFromString") && !strings.HasSuffix(name, "shopspring/decimal.NewFromFormattedString") {
				return true
			}
			n++
			o := r.Add("R-TERM/T-cost", siteKey(f, "decimal parsed from "+core.ExprStr(call.Args[0])), call.Pos(), "decimal parsed from text")
			id, isID := as.Lhs[0].(*ast.Ident)
			if !isID || id.Name == "_" {
				o.Fail("the parsed decimal is not bound to a variable that could be range-checked")
				return true
			}
			obj := info.Defs[id]
			if obj == nil {
				obj = info.Uses[id]
			}
			// first use of the variable after the definition (other than err checks) must be the guard
			guarded, firstUse := false, ""
			var block []ast.Stmt
			for _, p := range core.PathTo(f.Body, as) {
				if b, ok := p.(*ast.BlockStmt); ok {
					block = b.List
				}
			}
			after := false
			for _, st := range block {
				if st == ast.Stmt(as) {
					after = true
					continue
				}
				if !after {
					continue
				}
				uses := false
				ast.Inspect(st, func(x ast.Node) bool {
					if i2, ok := x.(*ast.Ident); ok && info.Uses[i2] == obj {
						uses = true
					}
					return true
				})
				if !uses {
					continue
				}
				if ifs, ok := st.(*ast.IfStmt); ok && strings.Contains(core.ExprStr(ifs.Cond), id.Name+".Exponent()") && terminates(info, ifs.Body.List) {
					guarded = true
				} else {
					firstUse = core.ExprStr(stmtExprAny(st))
				}
				break
			}
			switch {
			case guarded:
				o.Auto("the first use of %s is an exponent range test that leaves the function", id.Name)
			case r.Table(table, o):
			default:
				o.Fail("%s is used (%s) without a test of %s.Exponent(): its text form, integer part or sum with another decimal expands 10^exponent, with an exponent of up to 2^31 taken from a few bytes of input", id.Name, firstUse, id.Name)
			}
			return true
		})
	}
	r.Analysed["magnitude_sensitive_sites"] = n
}

func stmtExprAny(s ast.Stmt) ast.Expr {
	switch x := s.(type) {
	case *ast.ExprStmt:
		return x.X
	case *ast.AssignStmt:
		return x.Rhs[0]
	case *ast.ReturnStmt:
		if len(x.Results) > 0 {
			return x.Results[0]
		}
	case *ast.IfStmt:
		return x.Cond
	}
	return &ast.Ident{Name: "…"}
}

// calleeLine: every in-component callee of the site has a table line of the
// form "R-TERM/T-rec | → <callee>"; returns the first such key.
func calleeLine(r *core.Run, table string, callees map[*ScopeFunc]bool) string {
	first := ""
	for t := range callees {
		k := "R-TERM/T-rec | → " + t.Name
		if !r.InTable(table, k) {
			return ""
		}
		if first == "" || k < first {
			first = k
		}
	}
	return first
}

// ssaRecordedName: the full name under which a function is known to the
// configuration tables (its recorded name when it was renamed).
func ssaRecordedName(f *ssa.Function) string {
	if fn, ok := canonFn(f).Object().(*types.Func); ok {
		return core.RecordedFullName(fn)
	}
	return f.String()
}

// depthGuardOf: f compares a counter with a constant in an `if` with a returning body and
// increments that counter, both before position `before` (its first call into the recursion).
func depthGuardOf(f *ScopeFunc, before token.Pos) string {
	if g := depthGuardIn(f.Pkg.TypesInfo, f.InspectOwn, before); g != "" {
		return g
	}
	// the guard extracted into a helper: `if err := dec.enterObject(); err != nil { return err }` where the
	// helper compares the counter with a constant, returns an error and otherwise increments it
	info := f.Pkg.TypesInfo
	found := ""
	f.InspectOwn(func(x ast.Node) bool {
		c, ok := x.(*ast.CallExpr)
		if !ok || c.Pos() > before || found != "" {
			return true
		}
		fn := core.CalleeFunc(info, c)
		if fn == nil || fn.Pkg() != f.Pkg.Types {
			return true
		}
		cd := core.DeclOf(f.Pkg, fn.Origin())
		if cd == nil || cd.Body == nil {
			return true
		}
		sig, _ := fn.Type().(*types.Signature)
		if sig == nil || sig.Results().Len() == 0 || !isErrorType(sig.Results().At(sig.Results().Len()-1).Type()) {
			return true
		}
		if g := depthGuardIn(info, func(v func(ast.Node) bool) { ast.Inspect(cd.Body, v) }, cd.End()); g != "" {
			found = g + " in " + fn.Name()
		}
		return true
	})
	return found
}

func depthGuardIn(info *types.Info, inspect func(func(ast.Node) bool), before token.Pos) string {
	guard, counter := "", ""
	inspect(func(x ast.Node) bool {
		ifs, ok := x.(*ast.IfStmt)
		if !ok || ifs.Pos() > before || len(ifs.Body.List) == 0 {
			return true
		}
		if _, ret := ifs.Body.List[len(ifs.Body.List)-1].(*ast.ReturnStmt); !ret {
			return true
		}
		b, ok := core.Unparen(ifs.Cond).(*ast.BinaryExpr)
		if !ok || (b.Op != token.GTR && b.Op != token.GEQ) {
			return true
		}
		if _, isConst := core.ConstInt(info, b.Y); !isConst {
			return true
		}
		switch core.Unparen(b.X).(type) {
		case *ast.SelectorExpr, *ast.Ident:
		default:
			return true
		}
		guard, counter = core.ExprStr(ifs.Cond), core.ExprStr(b.X)
		return true
	})
	if counter == "" {
		return ""
	}
	inc := false
	inspect(func(x ast.Node) bool {
		switch y := x.(type) {
		case *ast.IncDecStmt:
			if y.Tok == token.INC && core.ExprStr(y.X) == counter && y.Pos() < before {
				inc = true
			}
		case *ast.AssignStmt:
			if y.Tok == token.ADD_ASSIGN && len(y.Lhs) == 1 && core.ExprStr(y.Lhs[0]) == counter && y.Pos() < before {
				inc = true
			}
		}
		return true
	})
	if !inc {
		return ""
	}
	return guard
}
