package rules

import (
	"fmt"
	"go/ast"
	"go/token"
	"go/types"
	"strings"

	"golang.org/x/tools/go/packages"

	"j5verif/checker/core"
)

// AppendAlias (R-FLOW/appendalias): `y := append(p, more...)` writes into p's
// backing array whenever p has spare capacity. A function that does this with
// a slice *parameter* and keeps y (stores it, returns it, hands it on) is safe
// only while every caller passes a slice whose capacity equals its length — a
// stored field, a literal, a make of the exact size: then append always
// copies. Handed the result of another append (capacity usually larger than
// length), two calls with the same prefix share one array and the second
// overwrites what the first kept: all siblings end up with the last one's
// path. The rule computes which parameters are appended-to-and-kept
// (transitively through calls that pass the parameter on) and requires every
// argument for such a parameter to be a value that cannot have spare capacity.
func AppendAlias(r *core.Run, rels []string) {
	r.Rule("R-FLOW/appendalias", "for every function of the packages in scope that keeps append(p, …) for a slice parameter p without assigning it back to p (directly, or by passing p on to such a function): at every call site the argument for p is a field or element selector, a composite literal, a make, a conversion, a full slice expression x[a:b:b], slices.Clip/Clone, or the caller's own parameter of the same kind — never the result of append or a plain re-slice, whose capacity may exceed its length")
	type key struct {
		fn  *types.Func
		idx int
	}
	var pks []*packages.Package
	for _, rel := range rels {
		if pk := r.P.Pkg(rel); pk != nil {
			pks = append(pks, pk)
		} else {
			r.Fatal("anchor: package %s not found", rel)
		}
	}
	keeps := map[key]bool{}
	paramIndex := func(pk *packages.Package, fd *ast.FuncDecl) map[types.Object]int {
		m := map[types.Object]int{}
		if fd.Type.Params == nil {
			return m
		}
		i := 0
		for _, fl := range fd.Type.Params.List {
			for _, nm := range fl.Names {
				if _, isSlice := pk.TypesInfo.Defs[nm].Type().Underlying().(*types.Slice); isSlice {
					m[pk.TypesInfo.Defs[nm]] = i
				}
				i++
			}
			if len(fl.Names) == 0 {
				i++
			}
		}
		return m
	}
	for changed := true; changed; {
		changed = false
		for _, pk := range pks {
			info := pk.TypesInfo
			core.AllFuncDecls(pk, func(fd *ast.FuncDecl) {
				fn, _ := info.Defs[fd.Name].(*types.Func)
				if fn == nil || fd.Body == nil {
					return
				}
				ps := paramIndex(pk, fd)
				if len(ps) == 0 {
					return
				}
				mark := func(o types.Object) {
					if idx, ok := ps[o]; ok && !keeps[key{fn, idx}] {
						keeps[key{fn, idx}] = true
						changed = true
					}
				}
				// retained(e, depth): the value of expression e outlives the call — it is returned, stored in a
				// field, an element or a collection (also inside a composite literal); being handed to a
				// function as an argument is a transient use
				var retained func(e ast.Node, depth int) bool
				retained = func(e ast.Node, depth int) bool {
					path := core.PathTo(fd.Body, e)
					for i := len(path) - 2; i >= 0; i-- {
						switch x := path[i].(type) {
						case *ast.ParenExpr, *ast.CompositeLit, *ast.KeyValueExpr, *ast.UnaryExpr:
							continue
						case *ast.CallExpr:
							if core.CalleeName(info, x) == "builtin.append" {
								// an element appended to a collection is stored in it; the collection's own fate decides
								for _, a := range x.Args[1:] {
									if a.Pos() <= e.Pos() && e.End() <= a.End() {
										return true
									}
								}
								continue
							}
							if fn2 := core.CalleeFunc(info, x); fn2 != nil {
								for ai, a := range x.Args {
									if a.Pos() <= e.Pos() && e.End() <= a.End() && keeps[key{fn2.Origin(), ai}] {
										return true
									}
								}
							}
							return false
						case *ast.ReturnStmt:
							return true
						case *ast.AssignStmt:
							for li, l := range x.Lhs {
								if li >= len(x.Rhs) || !(x.Rhs[li].Pos() <= e.Pos() && e.End() <= x.Rhs[li].End()) {
									continue
								}
								switch lv := core.Unparen(l).(type) {
								case *ast.SelectorExpr, *ast.IndexExpr:
									return true
								case *ast.Ident:
									if depth >= 2 {
										return false
									}
									obj := info.ObjectOf(lv)
									keep := false
									ast.Inspect(fd.Body, func(m ast.Node) bool {
										if id, ok := m.(*ast.Ident); ok && info.Uses[id] == obj && !keep {
											if retained(id, depth+1) {
												keep = true
											}
										}
										return !keep
									})
									return keep
								}
							}
							return false
						case ast.Stmt:
							return false
						}
					}
					return false
				}
				ast.Inspect(fd.Body, func(n ast.Node) bool {
					c, ok := n.(*ast.CallExpr)
					if !ok {
						return true
					}
					if core.CalleeName(info, c) == "builtin.append" && len(c.Args) >= 2 {
						id, ok := core.Unparen(c.Args[0]).(*ast.Ident)
						if !ok {
							return true
						}
						o := info.ObjectOf(id)
						if _, isParam := ps[o]; !isParam {
							return true
						}
						// `p = append(p, …)` grows the function's own copy of the header only
						if path := core.PathTo(fd.Body, c); len(path) >= 2 {
							if as, ok := path[len(path)-2].(*ast.AssignStmt); ok && len(as.Lhs) == len(as.Rhs) {
								for i, rh := range as.Rhs {
									if rh == ast.Expr(c) {
										if lid, ok := core.Unparen(as.Lhs[i]).(*ast.Ident); ok && info.ObjectOf(lid) == o {
											return true
										}
									}
								}
							}
						}
						if retained(c, 0) {
							mark(o)
						}
						return true
					}
					// the parameter passed on to a function that keeps it
					if fn2 := core.CalleeFunc(info, c); fn2 != nil {
						for ai, a := range c.Args {
							if keeps[key{fn2.Origin(), ai}] {
								if id, ok := core.Unparen(a).(*ast.Ident); ok {
									mark(info.ObjectOf(id))
								}
							}
						}
					}
					return true
				})
			})
		}
	}
	r.Analysed["append_and_keep_parameters"] = len(keeps)
	// call sites
	for _, pk := range pks {
		pk := pk
		info := pk.TypesInfo
		rel := strings.TrimPrefix(pk.PkgPath, core.Module+"/")
		core.AllFuncDecls(pk, func(fd *ast.FuncDecl) {
			if fd.Body == nil {
				return
			}
			self, _ := info.Defs[fd.Name].(*types.Func)
			ps := paramIndex(pk, fd)
			ast.Inspect(fd.Body, func(n ast.Node) bool {
				c, ok := n.(*ast.CallExpr)
				if !ok {
					return true
				}
				fn := core.CalleeFunc(info, c)
				if fn == nil {
					return true
				}
				for ai, a := range c.Args {
					if !keeps[key{fn.Origin(), ai}] {
						continue
					}
					o := r.Add("R-FLOW/appendalias", fmt.Sprintf("%s.%s | %s(#%d = %s)", rel, core.FuncName(fd), fn.Name(), ai, core.NormExpr(info, a)), a.Pos(), "prefix slice handed to "+fn.Name()+", which appends to it and keeps the result")
					if why, ok := exactCapacity(info, fd, self, ps, nil, a, 0); ok {
						o.Auto("%s", why)
					} else {
						o.Fail("%s: its capacity may exceed its length, so the append inside %s writes into the same backing array for every call with this prefix — the values kept by earlier calls are overwritten by later ones (all siblings get the last one's path)", why, fn.Name())
					}
				}
				return true
			})
		})
	}
}

// exactCapacity: the expression cannot carry spare capacity.
func exactCapacity(info *types.Info, fd *ast.FuncDecl, self *types.Func, ps map[types.Object]int, keeps any, e ast.Expr, depth int) (string, bool) {
	e = core.Unparen(e)
	switch x := e.(type) {
	case *ast.SelectorExpr:
		return "a stored field (" + core.NormExpr(info, x) + ")", true
	case *ast.IndexExpr:
		return "an element of a collection", true
	case *ast.CompositeLit:
		return "a literal", true
	case *ast.SliceExpr:
		if x.Slice3 && x.Max != nil && x.High != nil && core.ExprStr(x.Max) == core.ExprStr(x.High) {
			return "a full slice expression with max = high", true
		}
		return "a re-slice " + core.NormExpr(info, x), false
	case *ast.CallExpr:
		name := core.CalleeName(info, x)
		if i := strings.Index(name, "["); i > 0 {
			name = name[:i]
		}
		switch name {
		case "builtin.make":
			if len(x.Args) == 2 {
				return "make with length = capacity", true
			}
			return "make with an explicit capacity", false
		case "slices.Clip", "slices.Clone", "bytes.Clone":
			return name, true
		case "builtin.append":
			return "the result of append", false
		}
		if core.IsConversion(info, x) && len(x.Args) == 1 {
			return exactCapacity(info, fd, self, ps, keeps, x.Args[0], depth)
		}
		return "the result of " + name, false
	case *ast.Ident:
		obj := info.ObjectOf(x)
		if obj == nil {
			return "unknown", false
		}
		if core.IsNilIdent(info, x) {
			return "nil", true
		}
		if _, isParam := ps[obj]; isParam {
			// the caller's own parameter: its callers are judged at their call sites (it is
			// append-and-keep transitively, so it has obligations of its own)
			return "the function's own parameter, judged at its call sites", true
		}
		if depth < 3 {
			if def := soleDefOf(info, x); def != nil {
				return exactCapacity(info, fd, self, ps, keeps, def, depth+1)
			}
		}
		// a range variable over a collection of slices, or a variable assigned several times
		return "a local that is not defined once (" + x.Name + ")", false
	}
	return "an expression the rule does not follow", false
}

// FillEvery (R-FLOW/fillall): `out := make([]T, len(xs))` followed by a loop
// that stores `out[i] = f(xs[i])` promises one result per element. A
// `continue` before the store leaves that element at T's zero value — which is
// a value like any other to whoever reads the slice (enum number 0 is
// UNSPECIFIED, the empty string is a name). Every iteration either stores or
// leaves the function.
func FillEvery(r *core.Run, rels []string) {
	r.Rule("R-FLOW/fillall", "where a slice is made with the length of a collection (make([]T, len(xs))) and a range loop over that collection stores into it by the loop index at the top level of its body, no `continue` precedes the store: an element that is skipped would stay at the zero value, which is data to the reader of the slice")
	for _, rel := range rels {
		pk := r.P.Pkg(rel)
		if pk == nil {
			r.Fatal("anchor: package %s not found", rel)
			continue
		}
		info := pk.TypesInfo
		core.AllFuncDecls(pk, func(fd *ast.FuncDecl) {
			if fd.Body == nil {
				return
			}
			// out -> xs for `out := make([]T, len(xs))`
			sized := map[types.Object]string{}
			ast.Inspect(fd.Body, func(n ast.Node) bool {
				as, ok := n.(*ast.AssignStmt)
				if !ok || len(as.Lhs) != len(as.Rhs) {
					return true
				}
				for i, rh := range as.Rhs {
					c, ok := core.Unparen(rh).(*ast.CallExpr)
					if !ok || core.CalleeName(info, c) != "builtin.make" || len(c.Args) != 2 {
						continue
					}
					lc, ok := core.Unparen(c.Args[1]).(*ast.CallExpr)
					if !ok || core.CalleeName(info, lc) != "builtin.len" {
						continue
					}
					if id, ok := as.Lhs[i].(*ast.Ident); ok {
						sized[info.ObjectOf(id)] = core.NormExpr(info, lc.Args[0])
					}
				}
				return true
			})
			if len(sized) == 0 {
				return
			}
			ast.Inspect(fd.Body, func(n ast.Node) bool {
				rs, ok := n.(*ast.RangeStmt)
				if !ok {
					return true
				}
				key, ok := rs.Key.(*ast.Ident)
				if !ok || key.Name == "_" {
					return true
				}
				kobj := info.ObjectOf(key)
				over := core.NormExpr(info, rs.X)
				for _, st := range rs.Body.List {
					as, ok := st.(*ast.AssignStmt)
					if !ok || len(as.Lhs) != 1 {
						continue
					}
					ix, ok := core.Unparen(as.Lhs[0]).(*ast.IndexExpr)
					if !ok {
						continue
					}
					sid, ok := core.Unparen(ix.X).(*ast.Ident)
					if !ok {
						continue
					}
					xs, isSized := sized[info.ObjectOf(sid)]
					iid, isIdx := core.Unparen(ix.Index).(*ast.Ident)
					if !isSized || xs != over || !isIdx || info.ObjectOf(iid) != kobj {
						continue
					}
					o := r.Add("R-FLOW/fillall", fmt.Sprintf("%s.%s | %s filled per element of %s", rel, core.FuncName(fd), core.TypeStr(info.TypeOf(sid)), over), as.Pos(), "result slice with one element per input element")
					var skip ast.Node
					for _, prev := range rs.Body.List {
						if prev.Pos() >= as.Pos() {
							break
						}
						ast.Inspect(prev, func(m ast.Node) bool {
							switch y := m.(type) {
							case *ast.ForStmt, *ast.RangeStmt, *ast.FuncLit:
								return false
							case *ast.BranchStmt:
								if y.Tok == token.CONTINUE && skip == nil {
									skip = y
								}
							}
							return true
						})
					}
					if skip != nil {
						o.Pos = r.P.Rel(skip.Pos())
						o.Fail("an iteration can `continue` before it stores its element: the slot keeps the zero value, which the reader of the slice takes for a result (0 is the number of UNSPECIFIED)")
					} else {
						o.Auto("every iteration that goes on stores its element")
					}
				}
				return true
			})
		})
	}
}
