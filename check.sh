#!/bin/sh
# usage: check.sh <property-id> <quick|thorough>
# Analyses /repo's current working tree (nothing is cached between runs).
cd "$(dirname "$0")"
. ./env.sh
[ -x bin/j5check ] || ./setup.sh >&2
exec bin/j5check -prop "$1" -tier "${2:-quick}" -repo "${J5_REPO:-/repo}"
