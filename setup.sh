#!/bin/sh
# Builds the checker from files on disk only (offline).
set -e
cd "$(dirname "$0")"
. ./env.sh
mkdir -p bin evidence
cd checker
go build -o ../bin/j5check ./cmd/j5check
go build -o ../bin/stress ./cmd/stress
