#!/bin/sh
# usage: probe.sh <package-dir-relative-to-repo> <probe_test.go> [go test args]
# Runs a throw-away test against a scratch copy of /repo (construction aid; not part of any check).
. "$(dirname "$0")/../env.sh"
dir=$1; file=$2; shift 2
tmp=$(mktemp -d "${TMPDIR:-/tmp}/j5probe.XXXXXX")
trap 'rm -rf "$tmp"' EXIT
rsync -a --exclude .git /repo/ "$tmp/repo/"
cp "$file" "$tmp/repo/$dir/zz_probe_test.go"
cd "$tmp/repo" && go test -vet=off -count=1 -run 'Probe' "$@" "./$dir/" 2>&1 | sed "s#$tmp/repo/##g" | tail -${TAIL:-40}
