#!/bin/bash
# usage: process_seeds.sh <id>...   (construction aid)
# For each finished seeding agent (/tmp/seedout/<id>, worktree /tmp/seedw/<id>): store the seed under seeded/<id>,
# remove the worktree, confirm it with verify_seed.sh, record the confirmation in meta.json, and run the
# property's own check against it.
cd "$(dirname "$0")/.."
for id in "$@"; do
  mkdir -p seeded/$id
  cp /tmp/seedout/$id/patch.diff /tmp/seedout/$id/zz_seed_demo_test.go /tmp/seedout/$id/demo_path.txt /tmp/seedout/$id/meta.json seeded/$id/ || { echo "$id: deliverables missing"; continue; }
  git -C /repo worktree remove --force /tmp/seedw/$id 2>/dev/null
  res=$(timeout 1500 tools/verify_seed.sh seeded/$id 2>&1 | grep '^{' | tail -1)
  echo "$id verify: $res"
  python3 - "$id" "$res" <<'PY'
import json,sys
sid,res=sys.argv[1],sys.argv[2]
try: r=json.loads(res)
except Exception: r={"error":res}
r['how']="tools/verify_seed.sh: fresh scratch worktree of /repo HEAD, git apply patch.diff, go build ./..., whole suite passes, demo (-run SeedDemo) fails with the change and passes after reverting it; worktree removed"
p=f'/verif/seeded/{sid}/meta.json'
try: m=json.load(open(p))
except Exception: m={}
m['confirmed_by_me']=r
json.dump(m,open(p,'w'),indent=1)
PY
  p=${id%%-*}
  echo "$id check: $(TAIL=3 timeout 600 tools/try_mutant.sh $p seeded/$id/patch.diff 2>&1 | cut -c1-300 | head -3 | tr '\n' ' ')"
done
git -C /repo worktree prune
