#!/usr/bin/env python3
# usage: record_fix.py <Dnn> <props,comma> <rule> "<commit subject after 'fix: '>" "<what failed (known_findings text)>" "<DESIGN row text>"   (construction aid)
# Records a fix: commit of /repo (HEAD) in known_findings.json ("fixed"), tools/make_mutants.py (REV list) and DESIGN.md §10.5.
import json,subprocess,sys,re
did,props,rule,subject,what,row=sys.argv[1:7]
props=props.split(',')
c=sys.argv[7] if len(sys.argv)>7 else subprocess.run("git -C /repo log --format=%h -1",shell=True,capture_output=True,text=True).stdout.strip()
p='/verif/tools/make_mutants.py'
s=open(p).read()
i=s.index(']\nn=0\nfor sub,props,expect in REV:')
s=s[:i]+' (%s,%s,%s),\n'%(json.dumps(subject),json.dumps(props),json.dumps(rule))+s[i:]
open(p,'w').write(s)
d=json.load(open('/verif/known_findings.json'))
for prop in props:
    d['fixed'].append({"property":prop,"commit":c,"what":what,"line":"fixed: property=%s %s %s"%(prop,c,what)})
json.dump(d,open('/verif/known_findings.json','w'),indent=1)
p='/verif/DESIGN.md'
s=open(p).read()
rows=[l for l in s.split('\n') if re.match(r'\| D\d+ \|',l)]
last=rows[-1]+'\n'
s=s.replace(last,last+"| %s | %s | %s | %s |\n"%(did,', '.join(props),c,row))
m=re.search(r'\n(\d+) `fix:` commits',s)
s=s.replace(m.group(0),'\n%d `fix:` commits'%(int(m.group(1))+1))
open(p,'w').write(s)
print("recorded",did,c)
