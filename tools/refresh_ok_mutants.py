#!/usr/bin/env python3
"""Refreshes mutants/<PROP>/ok-R<n>.diff from refactors/R<n>/patch.diff (after a rebase), and places new
refactorings: usage refresh_ok_mutants.py [R<n>:PROP,PROP ...]   (construction aid)"""
import glob,os,re,sys
ROOT=os.path.dirname(os.path.dirname(os.path.abspath(__file__)))
for a in sys.argv[1:]:
    rn,props=a.split(':')
    for p in props.split(','):
        os.makedirs(f"{ROOT}/mutants/{p}",exist_ok=True)
        open(f"{ROOT}/mutants/{p}/ok-{rn}.diff",'w').write('')
n=0
for f in sorted(glob.glob(f"{ROOT}/mutants/*/ok-R*.diff")):
    rn=re.search(r'ok-(R\d+)\.diff',f).group(1)
    src=f"{ROOT}/refactors/{rn}/patch.diff"
    if not os.path.exists(src):
        print("no source for",f); continue
    body=open(src).read()
    hdr=f"# expect: SILENT\n# behaviour-preserving refactoring {rn} (suite passes; see refactors/{rn}/notes.md): the check must not alarm\n"
    new=hdr+body
    if open(f).read()!=new:
        open(f,'w').write(new); n+=1
print("refreshed",n,"files")
