#!/bin/bash
# usage: process_refactor.sh R<n>...   (construction aid)
# Stores a finished refactoring agent's patch (/tmp/refout/R<n>) under refactors/R<n>, confirms it in a scratch
# copy of /repo (applies, builds, gofmt clean, whole suite passes) and runs all twenty quick checks on that copy:
# any alarm is a false alarm of the checker.
cd "$(dirname "$0")/.."
. ./env.sh
for id in "$@"; do
  if [ ! -f refactors/$id/patch.diff ]; then
    mkdir -p refactors/$id
    cp /tmp/refout/$id/patch.diff /tmp/refout/$id/notes.md refactors/$id/ || { echo "$id: deliverables missing"; continue; }
  fi
  git -C /repo worktree remove --force /tmp/refw/$id 2>/dev/null
  tmp=$(mktemp -d /tmp/j5ref.XXXXXX)
  rsync -a --exclude .git /repo/ "$tmp/repo/"
  if ! (cd "$tmp/repo" && patch -p1 -s < /verif/refactors/$id/patch.diff); then echo "$id: PATCH FAILED"; rm -rf "$tmp"; continue; fi
  (cd "$tmp/repo" && go build ./... && test -z "$(gofmt -l internal lib cmd j5types 2>/dev/null)" && go test -vet=off -count=1 ./... > "$tmp/suite.log" 2>&1) && echo "$id: builds, gofmt clean, suite passes" || { echo "$id: BUILD/SUITE PROBLEM"; grep -E '^(FAIL|---)' "$tmp/suite.log" | head -5; }
  for p in $(bin/j5check -list); do
    out=$(bin/j5check -prop "$p" -tier quick -repo "$tmp/repo" -out "$tmp/ev.json" 2>&1)
    if echo "$out" | grep -q '^VIOLATION\|^check failure'; then echo "$id ALARM $p: $(echo "$out" | grep -v '^KNOWN-FINDING\|^VIOLATION' | grep -v ' quick: ' | head -3 | sed "s#$tmp/repo/##" | cut -c1-300)"; fi
  done
  rm -rf "$tmp"
  echo "$id: done"
done
git -C /repo worktree prune
