#!/usr/bin/env python3
"""Regenerates /verif/MANIFEST.json from the table below (single source of truth)."""
import json, os, subprocess, sys

ROOT = os.path.dirname(os.path.dirname(os.path.abspath(__file__)))
props = [json.loads(l) for l in open(os.path.join(ROOT, "properties.jsonl"))]

# id -> dict(level, text, note, technique, design_ref)
CLAIMED = {}
NA = {}

def claim(pid, text, note, technique, level="other", design_ref=None):
    CLAIMED[pid] = dict(level=level, text=text, note=note, technique=technique, design_ref=design_ref or f"DESIGN.md §4 {pid}")

exec(open(os.path.join(ROOT, "tools", "claims.py")).read())

checks = []
for p in props:
    pid = p["id"]
    if pid in CLAIMED:
        c = CLAIMED[pid]
        checks.append({
            "property_id": pid,
            "quick_cmd": f"./check.sh {pid} quick",
            "thorough_cmd": f"./check.sh {pid} thorough",
            "evidence_file": f"/verif/evidence/{pid}.json",
            "replay_cmd_template": f"./check.sh {pid} quick   # the replay file {{path}} names the open obligation (rule, structural key, file:line)",
            "engine": "j5check",
            "level_claimed": {"category": c["level"], "text": c["text"], "design_ref": c["design_ref"]},
            "level_note": c["note"],
            "technique": c["technique"],
        })
na = []
for p in props:
    pid = p["id"]
    if pid not in CLAIMED:
        na.append({"property_id": pid, "reason": NA.get(pid, "check not yet built (construction in progress; DESIGN.md §4 gives the planned rule)")})

m = {
    "version": 1,
    "setup_cmd": "./setup.sh",
    "hooks": {
        "guard": "verif",
        "enable": "none needed: the checks read /repo's working tree statically; no hook or instrumentation exists in /repo",
        "baseline_off_cmd": "cd /repo && GOFLAGS=-mod=mod GOPROXY=off go test -vet=off -count=1 ./...",
        "source_commits": [],
        "add_only": True,
    },
    "engines": [{
        "name": "j5check",
        "path": "checker/",
        "serves_properties": sorted(CLAIMED),
        "kind_free_text": "repository-specific static analyser (go/packages + go/types + go/cfg + go/ssa + CHA/VTA call graphs, x/tools v0.29.0) over /repo's current working tree; enumerates obligations per rule, discharges each from the source on every run",
    }],
    "checks": checks,
    "notes": "Static analysis only (DESIGN.md). Every claimed check decides named structural clauses of its property, at level 'other' unless stated; level_note says what is not decided. known_findings.json lists genuine defects recorded rather than repaired and the fix: commits.",
    "not_applicable": na,
}
json.dump(m, open(os.path.join(ROOT, "MANIFEST.json"), "w"), indent=1)
print(f"claimed {len(checks)}, not_applicable {len(na)}")
