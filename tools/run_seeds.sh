#!/bin/bash
# Runs every implemented check against every seeded change (scratch copies) and prints a matrix line per seed.
cd "$(dirname "$0")/.."
. ./env.sh
props=$(bin/j5check -list)
for d in seeded/*/; do
  id=$(basename $d)
  prop=${id%%-*}
  tmp=$(mktemp -d /tmp/j5seed.XXXXXX)
  rsync -a --exclude .git /repo/ "$tmp/repo/"
  if ! (cd "$tmp/repo" && patch -p1 -s < "$OLDPWD/$d/patch.diff" >/dev/null 2>&1); then echo "$id: PATCH FAILED"; rm -rf "$tmp"; continue; fi
  caught=""
  for p in ${ONLY:-$props}; do
    if [ -n "$ALLPROPS" ] || [ "$p" = "$prop" ]; then
      out=$(bin/j5check -prop "$p" -tier quick -repo "$tmp/repo" -out "$tmp/ev.json" 2>&1)
      if echo "$out" | grep -q '^VIOLATION'; then caught="$caught $p($(echo "$out" | grep -B1 '^VIOLATION' | grep -v '^VIOLATION\|^--' | head -1 | sed "s#$tmp/repo/##" | cut -c1-160))"; fi
    fi
  done
  echo "$id:${caught:- MISSED}"
  rm -rf "$tmp"
done
