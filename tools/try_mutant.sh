#!/bin/sh
# usage: try_mutant.sh <prop> <patch.diff>   (or: try_mutant.sh <prop> -s 'sed-expr' <file>)
# Applies a change to a scratch copy of /repo (never to /repo), runs the check there, removes the copy.
cd "$(dirname "$0")/.."
. ./env.sh
prop=$1; shift
tmp=$(mktemp -d "${TMPDIR:-/tmp}/j5mut.XXXXXX")
trap 'rm -rf "$tmp"' EXIT
rsync -a --exclude .git /repo/ "$tmp/repo/"
if [ "$1" = "-s" ]; then
  sed -i "$2" "$tmp/repo/$3" || exit 3
  if cmp -s "$tmp/repo/$3" "/repo/$3"; then echo "sed changed nothing"; exit 3; fi
else
  pf=$(readlink -f "$1")
  (cd "$tmp/repo" && patch -p1 -s < "$pf") || { echo "patch failed"; exit 3; }
fi
(cd "$tmp/repo" && go build ./... ) || { echo "MUTANT DOES NOT COMPILE"; exit 3; }
bin/j5check -prop "$prop" -tier quick -repo "$tmp/repo" -out "$tmp/ev.json" | sed "s#$tmp/repo/##g" | grep -v '^KNOWN-FINDING' | tail -${TAIL:-8}
