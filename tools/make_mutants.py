#!/usr/bin/env python3
"""Builds /verif/mutants/<PROP>/*.diff: reverse patches of the fix: commits (each re-introduces the defect a
rule was built around), the confirmed seeded changes, and a few hand-written edits. Every file starts with
`# expect: <substring>` naming the rule that must report it. Patches that no longer apply to /repo HEAD are skipped."""
import subprocess, os, json, glob, sys
ROOT=os.path.dirname(os.path.dirname(os.path.abspath(__file__)))
def sh(c): return subprocess.run(c,shell=True,capture_output=True,text=True)
log=sh("git -C /repo log --format='%h %s'").stdout.strip().split("\n")
def commit(sub):
    m=[l.split()[0] for l in log if sub in l]
    assert len(m)==1,(sub,m)
    return m[0]
REV=[
 ("wrap date and decimal rules",["C07"],"R-EXT/G1"),
 ("register the import of every extension",["C07"],"R-EXT/G3"),
 ("list request annotation on the request message",["C07"],"R-EXT/G1"),
 ("do not index the empty key list",["C06"],"R-PANIC/P2"),
 ("reject query keys that carry no value",["C06"],"R-PANIC/P2"),
 ("reject null elements of scalar arrays",["C06"],"R-PANIC/P6"),
 ("return an error for unsupported item schemas",["C06","C18"],"R-PANIC/P1"),
 ("set the end position of a block header",["C11","C19"],"R-POS"),
 ("copy j5 Ext fields onto the proto extension",["C07"],"R-EXT/G4"),
 ("zero-pad the year",["C08","C01"],"R-WIRE/W2"),
 ("encode non-finite floats",["C08"],"R-WIRE/W3"),
 ("refuse to encode an Any that has no content",["C08"],"R-WIRE/W5"),
 ("propagate schema build errors from Reflector.NewRoot",["C03"],"R-ERR/E1"),
 ("report unparsable or out-of-range integer strings",["C03"],"R-ERR/E1"),
 ("accept unquoted JSON numbers for decimal",["C03"],"R-FLOW/F1"),
 ("guard the on-demand schema cache with a mutex",["C10"],"R-LOCK"),
 ("choose lt/gt only when the exclusive flag is true",["C04","C12"],"R-SYM/S4"),
 ("read uint64 list rules from the uint64 member",["C04"],"R-SYM/S"),
 ("read decimal rules from the decimal extension member",["C04"],"R-SYM/S1"),
 ("read bytes length rules back",["C04"],"R-SYM/S1"),
 ("allocate bool rules before setting const",["C18"],"R-PANIC/P4a"),
 ("do not reflect fixed64/sfixed64 fields as float64",["C18"],"R-FLOW/F3"),
 ("read the tenant key annotation back",["C04"],"R-SYM/S1"),
 ("read oneof list rules back",["C04"],"R-SYM/S1"),
 ("write float64 list rules to the double member",["C04"],"R-SYM/S3"),
 ("give map fields an options message",["C07"],"R-PANIC/P4a"),
 ("emit list rules declared on any and timestamp",["C04"],"R-SYM/S0"),
 ("emit the map annotation and pair-count rules",["C04"],"R-SYM/S0"),
 ("keep enum info and list rules when importing",["C15"],"R-SYM/S"),
 ("number enum values by position when translating",["C13","C12","C02"],"R-PROV/V2"),
 ("print map-valued options in key order",["C14"],"R-DET/N1"),
 ("render string and regex literals with the lexer",["C09"],"R-CONST/escapes"),
 ("parse INT64 literals with 64 bits",["C07"],"R-FLOW/F2"),
 ("convert key, bytes, date, decimal and timestamp fields to OpenAPI",["C16"],"R-EXH/X1"),
 ("stop the schema field walk at types already on the path",["C16"],"R-TERM/T2"),
 ("reject a message that flattens itself",["C18","C16"],"R-TERM/T2"),
 ("print json_name when it differs",["C05"],"R-COVER"),
 ("linker reports an import cycle",["C07"],"R-TERM/T-rec"),
 ("emit the rules of map item types",["C12"],"R-FLOW/items"),
 ("print a type name for fields that refer",["C05"],"R-FLOW/refname"),
 ("emit array item-count rules",["C04","C12"],"R-SYM/S7"),
 ("bound the exponent of decimal literals",["C06"],"R-TERM/T-cost"),
 ("merge format edits that share a source line",["C19"],"R-CONST/disjoint"),
 ("a j5 Any holding a message with every field at its default",["C01"],"R-FLOW/anycontent"),
 ("required arrays and maps read back from proto as not required",["C04"],"R-PROV/required"),
 ("entities whose name ends in a capital letter were rejected",["C07"],"R-PROV/entityname"),
 ("boolean fields could not be supplied as URL query parameters",["C03"],"R-FLOW/kinds"),
 ("id62.Parse accepted negative numbers",["C20"],"R-FLOW/sign"),
 ("format edits left a whitespace-only separator line in place",["C19"],"R-CONST/gap"),
 ("a method without a response block crashed the OpenAPI export",["C16"],"R-PANIC/P4o"),
 ("a failed build left unlinked refs in the schema cache",["C18"],"R-ERR/rollback"),
 ("deeply nested array values exhausted the stack",["C11","C07"],"R-TERM/T-depth"),
 ("files of neighbouring packages were loaded into a dependency package",["C14","C02"],"R-DET/N5"),
 ("repeated property names were accepted when reflecting a message",["C18"],"R-ERR/E4u"),
 ("deeply nested JSON exhausted the stack of the decoder",["C06"],"R-TERM/T-depth"),
 ("an enum option whose short name begins with the enum prefix decoded to another option",["C03", "C01"],"R-CONST/leniency"),
 ("text of a FLOAT32 field was parsed as float64 and narrowed",["C03", "C01"],"R-FLOW/F2f"),
 ("date text naming a date that does not exist was accepted",["C03"],"R-ERR/E4d"),
 ("a google.protobuf.Any holding a message with every field at its default could not be encoded",["C01"],"R-FLOW/anycontent"),
 ("objects of service and topic blocks were exported as types of the parent package",["C14", "C13", "C07"],"R-PROV/exportscope"),
 ("deeply nested blocks exhausted the stack of the schema walker",["C07"],"R-TERM/T-nest"),
 ("a key repeated in a map of scalars or enums silently replaced the earlier value",["C03"],"R-ERR/E4"),
 ("the value of an Any was taken from whatever key the document used",["C03"],"R-ERR/E4"),
 ("timestamp text outside the range of google.protobuf.Timestamp was decoded without error",["C03"],"R-ERR/E4t"),
 ("data after the end of the JSON document was silently ignored",["C03"],"R-ERR/E4e"),
 ("an explicit null for an absent oneof arm was counted as a second key",["C03"],"R-ERR/E4n"),
 ("query parameters were applied in map order",["C03"],"R-DET/N1"),
 ("every message with a field 'keys' of an entity's keys type was reflected as that entity's keys part",["C17", "C16"],"R-PROV/entitypart"),
 ("a description without words was formatted to a blank line",["C09"],"R-COVER/nonempty"),
 ("descriptions with repeated or trailing blanks wrapped differently on a second format",["C09"],"R-CONST/words"),
 ("the default status filter of an entity named status values which do not exist",["C17"],"R-PROV/statusname"),
 ("a printed type reference could be captured by a nested type or a package component of the same name",["C05", "C04"],"R-FLOW/refscope"),
]
n=0
for sub,props,expect in REV:
    c=commit(sub)
    d=sh(f"git -C /repo diff {c} {c}~1").stdout
    chk=subprocess.run("git -C /repo apply --check -",shell=True,input=d,capture_output=True,text=True)
    if chk.returncode!=0:
        print("skip (does not apply to HEAD):",c,sub)
        for f in glob.glob(f"{ROOT}/mutants/*/rev-{c}.diff"): os.remove(f)
        continue
    for p in props:
        os.makedirs(f"{ROOT}/mutants/{p}",exist_ok=True)
        open(f"{ROOT}/mutants/{p}/rev-{c}.diff","w").write(f"# expect: {expect}\n# reverse of /repo fix: commit {c} ({sub})\n"+d)
        n+=1
# seeded changes: the rule that is meant to see each (an incidental report by another rule does not count)
SEED_EXPECT={
 "C01-1":"R-WIRE/W5","C01-2":"R-FLOW/F2","C01-3":"R-FLOW/anycontent",
 "C02-1":"R-PROV/V1","C02-2":"R-CONST/importnames","C02-3":"R-CONST/httppath",
 "C03-3":"R-FLOW/F2c","C04-1":"R-PROV/jsonname","C04-2":"R-SYM/S7","C04-3":"R-SYM/S7",
 "C05-1":"R-FLOW/optkind","C05-2":"R-COVER/label","C05-3":"R-CONST/copy",
 "C06-1":"R-PANIC/P6","C06-3":"R-TERM/T-cost",
 "C07-1":"R-FLOW/deps","C07-2":"R-EXH/X5","C07-3":"R-FLOW/descroot",
 "C08-1":"R-WIRE/W5","C08-2":"R-CONST/copy","C08-3":"R-WIRE/W4",
 "C09-1":"R-CONST/escapes","C09-2":"R-CONST/opaque","C09-3":"R-SYM/forms",
 "C10-1":"R-LOCK/L2","C10-2":"R-LOCK/L2","C10-3":"R-LOCK/L2",
 "C11-1":"R-PANIC/P2","C11-2":"R-POS/errs","C11-3":"R-TERM/T-eof",
 "C12-2":"R-SYM/S9","C12-3":"R-SYM/S4p",
 "C13-1":"R-PROV/V2","C13-2":"R-PROV/V5","C13-3":"R-PROV/V1",
 "C14-1":"R-DET/N4","C14-2":"R-DET/N3","C14-3":"R-DET/N1",
 "C15-1":"R-SYM/S1","C15-2":"R-SYM/S5v","C15-3":"R-SYM/S5v",
 "C16-1":"R-FLOW/split","C16-2":"R-PROV/pathnames","C16-3":"R-FLOW/closure",
 "C17-1":"R-FLOW/pathkeys","C17-2":"R-SYM/S7","C17-3":"R-FLOW/carried",
 "C18-1":"R-ERR/E4","C18-2":"R-FLOW/acc","C18-3":"R-EXH/mapentry",
 "C19-1":"R-CONST/fmtdiff","C19-2":"R-POS/cover","C19-3":"R-CONST/fmtdiff",
 "C20-1":"R-FLOW/align","C20-2":"R-FLOW/align","C20-3":"R-FLOW/soleparser",
 "C03-1":"R-ERR/E4","C03-2":"R-ERR/E4",
 "C01-4":"R-COVER/present","C02-4":"R-CONST/topicname","C03-4":"R-FLOW/verbatim","C04-4":"R-FLOW/attr","C05-4":"R-COVER/present",
 "C06-4":"R-PANIC/P2","C07-4":"R-FLOW/attr","C08-4":"R-WIRE/W5","C10-4":"R-LOCK/L2","C11-4":"R-TERM/T-loop","C12-4":"R-SYM/S7",
 "C13-4":"R-PROV/V6","C14-4":"R-DET/N1","C15-4":"R-SYM/S5x","C17-4":"R-CONST/entity","C18-4":"R-PANIC/P4c","C20-4":"R-PURE",
 "C01-5":"R-ERR/E4","C02-5":"R-FLOW/memokey","C03-5":"R-FLOW/kinds","C04-5":"R-PROV/required","C05-5":"R-DET/located",
 "C06-5":"R-FLOW/memokey","C07-5":"R-PROV/entityname","C08-5":"R-WIRE/W2","C09-5":"R-WHO/fmttext","C10-5":"R-LOCK/pool",
 "C11-5":"R-POS/lexer","C12-5":"R-SYM/S10","C13-5":"R-PROV/V7","C14-5":"R-DET/N3s","C15-5":"R-SYM/S5x",
 "C16-5":"R-SYM/verbbody","C17-5":"R-FLOW/pathseg","C18-5":"R-TERM/T2","C19-5":"R-WHO/fmttext","C20-5":"R-FLOW/align",
 "C01-6":"R-LOCK/poolalias","C02-6":"R-PROV/filename","C03-6":"R-CONST/leniency","C04-6":"R-COVER/present","C05-6":"R-COVER/detached",
 "C06-6":"R-PANIC/P6","C07-6":"R-PROV/mainfirst","C08-6":"R-LOCK/poolalias","C09-6":"R-SYM/commentkind","C10-6":"R-LOCK/L5",
 "C11-6":"R-PANIC/P2g","C12-6":"R-PROV/V2s","C13-6":"R-PROV/exportscope","C14-6":"R-DET/N1","C15-6":"R-SYM/S5v",
 "C16-6":"R-FLOW/closure","C17-6":"R-FLOW/required","C18-6":"R-ERR/E4u","C19-6":"R-CONST/disjoint","C20-6":"R-PANIC/P2",
 "C16-4":"R-SYM/entityref","C19-4":"R-POS/attach","C09-4":"R-SYM/headerdesc",
 "C01-7":"R-FLOW/appendalias","C02-7":"R-FLOW/deps","C03-7":"R-ERR/E4o","C04-7":"R-CONST/srcpath","C05-7":"R-CONST/commentlines",
 "C06-7":"R-LOCK/L6","C07-7":"R-PROV/valuename","C08-7":"R-WIRE/W3","C09-7":"R-COVER/tagmark","C10-7":"R-LOCK/L2",
 "C11-7":"R-POS/lexerr","C12-7":"R-SYM/S4","C13-7":"R-PROV/filename","C14-7":"R-SYM/S9","C15-7":"R-SYM/S5v",
 "C16-7":"R-PANIC/P4w","C17-7":"R-SYM/S9w","C18-7":"R-ERR/rollback","C19-7":"R-CONST/lines","C20-7":"rendering idiom",
 # round 8 (ten properties)
 "C02-8":"R-FLOW/attr","C04-8":"R-SYM/S4","C05-8":"R-CONST/jsondefault","C07-8":"R-CONST/rawbody","C12-8":"R-FLOW/fillall",
 "C13-8":"R-PROV/V2","C14-8":"R-DET/N5","C15-8":"R-SYM/S7i","C16-8":"R-CONST/topicmsg","C17-8":"R-PROV/V2",
 "C01-8":"R-SYM/memberloop","C03-8":"R-SYM/presence","C06-8":"R-ERR/rollback","C08-8":"R-EXH/rootkind","C09-8":"R-CONST/escapes",
 "C10-8":"R-ERR/rollback","C11-8":"R-POS/samesource","C18-8":"R-PANIC/P4m","C19-8":"R-CONST/gap","C20-8":"R-FLOW/sign",
}
# seeds kept on record that no rule is meant to see (see DESIGN.md §10.4): not part of the self-test
UNCOVERED=set()
for d in sorted(glob.glob(f"{ROOT}/seeded/C*")):
    sid=os.path.basename(d); p=sid.split("-")[0]
    if sid in UNCOVERED:
        for f in glob.glob(f"{ROOT}/mutants/*/seed-{sid}.diff"): os.remove(f)
        continue
    patch=open(d+"/patch.diff").read()
    chk=subprocess.run("git -C /repo apply --check -",shell=True,input=patch,capture_output=True,text=True)
    if chk.returncode!=0:
        print("skip seed (does not apply):",sid)
        for f in glob.glob(f"{ROOT}/mutants/*/seed-{sid}.diff"): os.remove(f)
        continue
    os.makedirs(f"{ROOT}/mutants/{p}",exist_ok=True)
    expect=SEED_EXPECT.get(sid,"VIOLATION")
    open(f"{ROOT}/mutants/{p}/seed-{sid}.diff","w").write(f"# expect: {expect}\n# seeded change {sid} (sub-agent, confirmed)\n"+patch)
    n+=1
print("wrote",n,"mutant files")
