#!/bin/bash
# usage: verify_seed.sh <dir containing patch.diff, zz_seed_demo_test.go, demo_path.txt>
# Confirms a seeded change in a scratch worktree of /repo HEAD: applies, builds, whole suite passes,
# demo fails with the change and passes without. Prints a JSON summary. Removes the worktree.
set -u
. "$(dirname "$0")/../env.sh"
d=$(cd "$1" && pwd)
wt=$(mktemp -d /tmp/seedverify.XXXXXX)
git -C /repo worktree add --detach "$wt/wt" HEAD >/dev/null 2>&1 || { echo '{"error":"worktree"}'; exit 2; }
cleanup() { git -C /repo worktree remove --force "$wt/wt" >/dev/null 2>&1; rm -rf "$wt"; }
trap cleanup EXIT
cd "$wt/wt"
applies=true
git apply "$d/patch.diff" 2>/dev/null || git apply --3way "$d/patch.diff" 2>/dev/null || applies=false
if ! $applies; then echo '{"applies":false}'; exit 1; fi
git reset -q 2>/dev/null
builds=true; go build ./... >/dev/null 2>&1 || builds=false
suite=true; go test -vet=off -count=1 ./... >"$wt/suite.log" 2>&1 || suite=false
demo_rel=$(cat "$d/demo_path.txt" | tr -d ' \n')
cp "$d/zz_seed_demo_test.go" "$demo_rel"
pkg="./$(dirname "$demo_rel")/"
go test -vet=off -count=1 -run 'SeedDemo' "$pkg" >"$wt/demo_with.log" 2>&1 && with=pass || with=fail
git apply -R "$d/patch.diff" 2>/dev/null || git apply -R --3way "$d/patch.diff" 2>/dev/null || { git stash -q; }
go test -vet=off -count=1 -run 'SeedDemo' "$pkg" >"$wt/demo_without.log" 2>&1 && without=pass || without=fail
head=$(git -C /repo rev-parse --short HEAD)
echo "{\"repo_head\":\"$head\",\"applies\":true,\"builds\":$builds,\"suite_passes_with_change\":$suite,\"demo_with_change\":\"$with\",\"demo_without_change\":\"$without\"}"
if [ "$suite" != true ]; then grep -E "^(FAIL|---)" "$wt/suite.log" | head -5; fi
if [ "$without" != pass ]; then tail -5 "$wt/demo_without.log"; fi
