# One claim(...) per property that has a check. Executed by gen_manifest.py.

claim("C20",
  text="Decides from the source, on every run, the structural necessary conditions of the id62 contract: one width W shared by the renderer's comparisons, its zero-padding verb and the published pattern (whose alphabet is big.Int's base-62 alphabet); the renderer's only panic is unreachable because 256^N <= 62^W for the array length N and width W extracted from the code (big-integer arithmetic inside the analyser); render and parse use the same radix; parseBase62 copies right-aligned on every success path, rejects longer values, and its slice bound is in range; the pattern has a single source that nobody writes; NewHash's call tree is pure. Level 'other': these are proofs of the named clauses over all inputs, not of the render/parse bijection itself.",
  note="Not decided: the bijection over 2^128 values (arithmetic inside math/big is trusted: Text/SetString/SetBytes/Bytes semantics and fmt's %0Ns padding are stated library facts). Trusted base: go/types constant evaluation, the AST shape recognisers listed in the evidence.",
  technique="constant extraction + abstract interpretation of length relations over the AST; big-integer bound check; effect/purity walk")

_PANIC = ("R-PANIC inventory over every hand-written function reachable (VTA call graph seeded with CHA) from the property's entry points: explicit panics, index/slice expressions whose bounds check the Go compiler's prove pass could not eliminate, type assertions without comma-ok, integer division by non-constants, and calls of APIs with panicking preconditions (reflect.Value accessors, protoreflect List/Map/Message.Set with a possibly-zero Value, big.Int radix, strings.Repeat, Must* helpers). Each obligation is discharged on every run by a dominating guard recomputed from the source, or by a single-key table line with a reason; a new or newly unguarded panic site is an open obligation.")
_PANIC_NOTE = ("Not decided: nil-pointer dereferences in general (only the listed sub-rules), panics inside dependencies beyond the listed preconditions, stack depth and running time, and any value-level behaviour. Trusted: go/types, go/ssa, VTA call-graph soundness for this code (no reflection-driven calls, no unsafe), the compiler's prove pass (a bounds check it eliminates cannot fail), and the reasons in tables/panic_sites.json (each covers one construct and rests on an invariant stated there).")

claim("C06",
  text="Totality of JSON/query decoding, structural part: " + _PANIC + " Entry points JSONToProto, QueryToProto, DecodeAnyTo. The rules found and the fix: commits removed four reachable panics (\"!type\"-only oneof, empty query value list, null array/map elements, unsupported item schema).",
  note=_PANIC_NOTE + " Termination (token progress of the decode recursion) is argued in DESIGN.md and not yet mechanised.",
  technique="panic-site inventory over the VTA-reachable set + compiler prove pass + dominator-fact guard analysis + interprocedural Value-validity summaries")
claim("C07",
  text="Compiler totality and link-independence, structural part: (1) R-EXT/G1,G2 exact typing of every proto.SetExtension/GetExtension against the generated ExtensionInfo literals; (2) R-EXT/G3 a must-analysis over go/cfg with callee summaries and calling-context intersection proving that every SetExtension in j5convert is paired with ensureImport of the file declaring the extension on every non-error path (so a file containing only that construct links); (3) R-EXT/G4 field descriptors used on a protoreflect.Message originate from that message; (4) " + _PANIC + " Entry points j5parse.ParseFile, ConvertJ5File, SourceSummary, CompilePackage, LintFile, LintAll.",
  note=_PANIC_NOTE + " Not decided: that every documented construct is accepted, error positions, protocompile's own totality.",
  technique="type-resolved extension typing; CFG must-dataflow with interprocedural summaries (import pairing); descriptor provenance; panic-site inventory")
claim("C11",
  text="Parser totality, structural part: " + _PANIC + " Entry points parser.ParseFile, errpos.AddSource/AddSourceFile, ErrorsWithSource.HumanString/Error.",
  note=_PANIC_NOTE + " Position well-formedness (start <= end, inside the file) and termination of the lexer/parser loops are not yet mechanised beyond the conditional table line on rangeLines.",
  technique="panic-site inventory + compiler prove pass + dominator-fact guard analysis")
claim("C19",
  text="Editor edits computed without failure, structural part: " + _PANIC + " Entry points parser.FmtDiffs and the LSP formatter.",
  note=_PANIC_NOTE + " Ordering/non-overlap of edits and equality with Fmt output are not decided.",
  technique="panic-site inventory + compiler prove pass + dominator-fact guard analysis")
claim("C09",
  text="Formatter totality only (a necessary condition of 'emits parseable source'): " + _PANIC + " Entry points parser.Fmt, bcl.Fmt.",
  note=_PANIC_NOTE + " Meaning preservation, idempotence and lexer/formatter escape agreement are not yet decided by this check.",
  technique="panic-site inventory + compiler prove pass + dominator-fact guard analysis")
claim("C18",
  text="Schema reflection totality, structural part: " + _PANIC + " Entry points SchemaCache.Schema, SchemaSetFromFiles, Reflector.NewRoot/NewObject.",
  note=_PANIC_NOTE + " Nil dereferences of partially built rule structs, recursion on flatten cycles and the self-consistency clauses are not yet mechanised.",
  technique="panic-site inventory + compiler prove pass + dominator-fact guard analysis")
claim("C05",
  text="Printer totality only (printing must not crash before any round trip can hold): " + _PANIC + " Entry point protoprint.PrintFile.",
  note=_PANIC_NOTE + " Attribute coverage of the printer and re-parse equivalence are not yet decided by this check.",
  technique="panic-site inventory + compiler prove pass + dominator-fact guard analysis")
claim("C16",
  text="Toolchain consumption without crash, structural part: " + _PANIC + " Entry points structure.APIFromImage, j5client.APIFromSource, export.BuildSwagger, export.FromProto.",
  note=_PANIC_NOTE + " Exhaustiveness of the per-field-kind switches, recursion guards and naming-convention agreement are not yet mechanised.",
  technique="panic-site inventory + compiler prove pass + dominator-fact guard analysis")

claim("C08",
  text="Decides the shape-of-code clauses of the wire format on every run: (W1) per Go value type the emitter chosen by encodeScalarField has the token class the README table requires, classes derived from the emitter bodies, and every type scalarGoFromReflect can return has a case; (W2) base64.StdEncoding, UTC + RFC3339 layout, %04d-%02d-%02d resolved by object identity; (W3) FormatFloat only under NaN/Inf tests; (W4) open/close pairing by defer and the separator idiom in every container callback; (W5) who may write raw bytes: only structural constants, strconv numbers, appendString output, and a definitely-assigned pre-encoded splice in encodeAny; (W6) \"!type\"/\"value\" framing on both encoder and decoder; (W7) the escaper's mandatory escape set and single call site; (X4) encodeValue's interface dispatch order against the roles each Field implementation declares; plus the R-PANIC inventory over the encode path.",
  note="Not decided: byte-exact output for concrete values, omission of unset members (decided by protoreflect Has at run time), member names being the schema's JSON names beyond the who-returns structure. Trusted: strconv/fmt/time/base64 semantics, protojson's escaper (copied verbatim), README table transcription in props/c08.go. " + _PANIC_NOTE,
  technique="emitter classification + wire-format table comparison; constant/object-identity extraction; dominator facts; typestate pairing; dispatch-order check; panic-site inventory")

claim("C03",
  text="Decides the rejection and leniency machinery visible in code shape, over everything reachable from JSONToProto/QueryToProto/DecodeAnyTo: (E1) no return with a nil error inside `if err != nil`; (E2) no dropped error results; (E3) the zero protoreflect.Value with a nil error only under a nil-input guard; (E4) a table of required rejections matched structurally — multiple oneof keys and a contradicting \"!type\" (outside the member callback, so independent of member order), duplicate key, non-string key, delimiter where a scalar is expected (3 sites), non-string enum tokens (2), Any without type/value or with two values, unknown enum name; (F1) per scalar kind the accepted token types include the documented quoted and bare spellings; (F2) strconv bit sizes equal the constructor width and int64→32-bit/unsigned narrowings have range tests; leniency constants (base64 alphabet mapping + padding + StdEncoding, enum prefix stripping, RFC3339 layout); query parameters reuse the JSON scalar setters.",
  note="Not decided: that the stored value equals the denoted one (strconv/base64/time/decimal semantics are trusted), numeric precision, encoding/json's tokenizer, uint64 above MaxInt64 sent bare (json.Number.Int64 fails: rejected, not silently wrong — DESIGN.md D26). E4 matchers recognise the if-forms listed in props/c03.go; a different but equivalent form is reported as missing and must be added there.",
  technique="error-discipline dataflow over the VTA-reachable set; structural required-guard matching; acceptance-matrix and bit-size extraction from type switches; constant extraction")

claim("C01",
  text="Decides structural necessary conditions of decode(encode(m)) = m: (F1p) for each scalar kind the token class the encoder writes for the Go type scalarGoFromReflect returns is accepted by that kind's arm of scalarReflectFromGo (13 kind/format pairs, classes derived from emitter bodies and type-switch case lists); (W5) every label and string goes through the escaper; (W6) \"!type\"/\"value\" framing constants agree between encoder and decoder; (W2) date, timestamp and base64 renderings are the forms the parsers re-read; (X4) encodeValue's interface dispatch order versus the roles each Field implementation declares; (X2) decodeValue covers all PropertyType constants; (X1) property.PropertyType covers every FieldSchema implementation; (X4u) every map implementation matches exactly one decodeMapField case; (X3a) every array implementation declares a role the decoder probes; (R-WHO) the codec never touches proto fields except through j5reflect's property paths.",
  note="Not decided: equality of decode(encode(m)) with m for any value, presence semantics of zero values, float text round trip, decimal numeric comparison. Each rule is a necessary condition: breaking it breaks the round trip for some message; passing them does not prove it.",
  technique="encode/decode matrix extraction from type switches and emitter bodies; dispatch-order and exhaustiveness checks over go/types universes; constant agreement; who-may-call")
