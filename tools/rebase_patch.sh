#!/bin/bash
# usage: rebase_patch.sh <patch file> <old commit>   (construction aid)
# Re-expresses a stored patch (seed or refactoring) that applied to <old commit> of /repo as a patch against
# /repo HEAD: the patch is applied to a scratch worktree of the old commit, the changes made to /repo since
# then are merged in file by file (git merge-file), and the result is diffed against HEAD. Conflicts are
# reported and left for hand work; the scratch worktree is removed.
set -u
patchf=$(readlink -f "$1"); old=$2
. /verif/env.sh
w=$(mktemp -d /tmp/rbw.XXXXXX); rmdir "$w"
git -C /repo worktree add -q --detach "$w" "$old" || exit 2
cd "$w"
if ! git apply "$patchf" 2>/dev/null && ! patch -p1 -s < "$patchf" >/dev/null 2>&1; then echo "REBASE: patch does not apply to $old"; cd /; git -C /repo worktree remove --force "$w"; exit 2; fi
find . -name '*.orig' -delete
conf=0
for f in $(git -C /repo diff --name-only "$old" HEAD); do
  if git diff --quiet -- "$f" 2>/dev/null && [ -z "$(git status --porcelain -- "$f")" ]; then
    mkdir -p "$(dirname "$f")"; git -C /repo show "HEAD:$f" > "$f" 2>/dev/null || rm -f "$f"
  else
    git -C /repo show "$old:$f" > /tmp/rb.base 2>/dev/null || : > /tmp/rb.base
    git -C /repo show "HEAD:$f" > /tmp/rb.theirs
    if ! git merge-file -q "$f" /tmp/rb.base /tmp/rb.theirs; then echo "REBASE: conflict in $f"; conf=1; fi
  fi
done
if [ $conf = 0 ]; then
  if go build ./... >/dev/null 2>&1; then
    git add -A; git diff --cached "$(git -C /repo rev-parse HEAD)" > /tmp/rb.new.diff
    cp /tmp/rb.new.diff "$patchf"; echo "REBASE: ok $(basename $(dirname $patchf))"
  else echo "REBASE: merged tree does not build"; conf=1; fi
fi
cd /; git -C /repo worktree remove --force "$w"; git -C /repo worktree prune
exit $conf
