#!/bin/bash
# Generates hand-written mutants as diffs against /repo HEAD into /verif/mutants/<PROP>/hand-*.diff.
# usage: hand_mutants.sh   (idempotent)
set -e
cd "$(dirname "$0")/.."
tmp=$(mktemp -d /tmp/handmut.XXXXXX); trap 'rm -rf "$tmp"' EXIT
mk() { # prop name expect file sed-expr
  prop=$1; name=$2; expect=$3; file=$4; expr=$5
  rm -rf "$tmp/a" "$tmp/b"; mkdir -p "$tmp/a/$(dirname $file)" "$tmp/b/$(dirname $file)"
  cp "/repo/$file" "$tmp/a/$file"; cp "/repo/$file" "$tmp/b/$file"
  sed -i "$expr" "$tmp/b/$file"
  if cmp -s "$tmp/a/$file" "$tmp/b/$file"; then echo "hand mutant $name: sed changed nothing"; return; fi
  mkdir -p "mutants/$prop"
  { echo "# expect: $expect"; echo "# hand-written mutant: $name"; (cd "$tmp" && diff -u "a/$file" "b/$file" | sed -E 's/^(---|\+\+\+) ([^\t]+)\t.*/\1 \2/'); } > "mutants/$prop/hand-$name.diff" || true
}
mk C20 pad-space        "R-CONST/width"   lib/id62/uuid62.go 's/%022s/%22s/'
mk C20 left-align       "R-FLOW/align"    lib/id62/uuid62.go 's/copy(into\[len(into)-len(valBytes):\], valBytes)/copy(into, valBytes)/'
mk C20 radix            "R-CONST/base"    lib/id62/uuid62.go 's/i.SetString(s, 62)/i.SetString(s, 36)/'
mk C20 width            "R-PANIC/D-arith" lib/id62/uuid62.go 's/len(str) > 22/len(str) > 21/'
mk C07 map-no-options   "R-PANIC/P4a"     internal/j5s/j5convert/fields.go '/^\t\t\tOptions:  &descriptorpb.FieldOptions{},$/d'
mk C08 url-base64       "R-WIRE/W2"       internal/codec/structure_encode.go 's/base64.StdEncoding.EncodeToString/base64.URLEncoding.EncodeToString/'
mk C08 bare-int64       "R-WIRE/W1"       internal/codec/structure_encode.go 's/enc.addInt64(vt)/enc.addInt32(int32(vt))/'
mk C08 no-utc           "R-WIRE/W2"       internal/codec/structure_encode.go 's/vt.In(time.UTC).Format/vt.Format/'
mk C01 no-utc           "R-WIRE/W2"       internal/codec/structure_encode.go 's/vt.In(time.UTC).Format/vt.Format/'
mk C03 parse-bits       "R-FLOW/F2"       lib/j5reflect/value_go.go 's/strconv.ParseInt(val, 10, 32)/strconv.ParseInt(val, 10, 64)/'
mk C03 url-map          "R-CONST/leniency" lib/j5reflect/value_go.go 's/\tval = strings.ReplaceAll(val, "_", "\/")//'
mk C03 multi-keys       "R-ERR/E4"        internal/codec/decoder.go 's/if len(foundKeys) > 1 {/if len(foundKeys) > 2 {/'
mk C02 jsonname         "R-FLOW/attr"     internal/j5s/j5convert/fields.go 's/fieldDesc.JsonName = gl.Ptr(node.Schema.Name)/fieldDesc.JsonName = gl.Ptr(protoFieldName)/'
mk C13 sort-keys        "R-PROV/V3"       internal/j5s/sourcewalk/schema.go 's/\tfieldNumber := int32(0)/\tsort.Slice(properties, func(i, j int) bool { return properties[i].Name < properties[j].Name })\n\tfieldNumber := int32(0)/; s/^import (/import (\n\t"sort"/'
mk C17 skip-status      "R-FLOW/mustcall" internal/j5s/sourcewalk/entity.go 's/if err := ent.acceptStatus(visitor); err != nil {/if err := ent.acceptData(visitor); err != nil {/'
mk C17 entity-name      "R-CONST/entity"  internal/j5s/sourcewalk/entity.go '0,/Entity: ent.name,/s//Entity: ent.Schema.Name,/'
mk C14 no-sort          "R-DET/N1"        internal/j5s/protobuild/packages.go 's/\tsort.Strings(filenames) \/\/ for consistent error ordering/\t_ = sort.Strings/'
mk C19 lsp-line         "R-CONST/fmtdiff" internal/bcl/genlsp/format.go 's/End:   protocol.Position{Line: uint32(diff.ToLine), Character: 0}/End:   protocol.Position{Line: uint32(diff.ToLine + 1), Character: 0}/'
mk C11 drop-guard       "R-PANIC/P2"      internal/bcl/errpos/print.go 's/if startLine > len(lines) || startLine < 1 {/if startLine > len(lines) {/'
mk C10 global-cache     "R-LOCK/L3"       lib/j5reflect/reflect.go 's/\tschema, err := r.schemaSet.Schema(descriptor)\n\tif err != nil {\n\t\treturn nil, err/&/'
mk C11 comment-eof      "R-TERM/T-loop"   internal/bcl/internal/parser/lexer.go '/^func (l \*Lexer) lexBlockComment/,/^}/{/if l.ch == lexerEofChr {/,/}/d}'
mk C19 comment-eof      "R-TERM/T-loop"   internal/bcl/internal/parser/lexer.go '/^func (l \*Lexer) lexBlockComment/,/^}/{/if l.ch == lexerEofChr {/,/}/d}'
mk C09 string-eof       "R-TERM/T-loop"   internal/bcl/internal/parser/lexer.go '/^func (l \*Lexer) lexString/,/^}/{/if l.ch == lexerEofChr {/,/}/d}'
mk C11 recover-no-pop   "R-TERM/T-loop"   internal/bcl/internal/parser/parser.go '/^func (ww \*Walker) recoverError/,/^}/{/^\t\tww.popToken()$/d}'
mk C06 typename-self    "R-TERM/T-rec"    lib/j5schema/field_schema.go 's/return fmt.Sprintf("array(%s)", s.Schema.TypeName())/return fmt.Sprintf("array(%s)", s.TypeName())/'
ls mutants/*/hand-* | wc -l
mk C06 no-depth-guard   "R-TERM/T-depth"  internal/codec/decoder.go '/^func (dec \*decoder) jsonObjectBody/,/^}/{/if dec.depth >= maxDecodeDepth {/,/}/d}'
mk C07 no-block-depth   "R-TERM/T-nest"   internal/bcl/internal/parser/parser.go '/^\t\t\tif depth > maxBlockDepth {/,/^\t\t\t}/d'
mk C03 any-any-key      "R-ERR/E4"        internal/codec/decoder.go '/^\t\tif keyTokenStr != "value" {/,/^\t\t}/d'
mk C03 query-map-order  "R-DET/N1"        internal/codec/query.go 's/^\tfor _, key := range keys {$/\tfor key := range queryString {/'
mk C09 desc-no-lines    "R-COVER/nonempty" internal/bcl/internal/parser/fmt.go '/^\tif len(linesOut) == 0 {$/,/^\t}$/d'
