# Environment every command of the framework runs under (sourced).
# The system go (1.23) auto-switches to the cached go1.24.1 toolchain named by
# go.mod; GOTOOLCHAIN=local or GOSUMDB=off would break that switch.
unset GOWORK GOTOOLCHAIN GOSUMDB GOARCH GOOS
export GOFLAGS=-mod=mod GOPROXY=off GOWORK=off
